package chain

import (
	"sort"

	didtypes "github.com/SaoNetwork/sao/x/did/types"
	markettypes "github.com/SaoNetwork/sao/x/market/types"
	modeltypes "github.com/SaoNetwork/sao/x/model/types"
	nodetypes "github.com/SaoNetwork/sao/x/node/types"
	ordertypes "github.com/SaoNetwork/sao/x/order/types"
	saotypes "github.com/SaoNetwork/sao/x/sao/types"
	"github.com/cosmos/cosmos-sdk/store/prefix"
	storetypes "github.com/cosmos/cosmos-sdk/store/types"
	sdk "github.com/cosmos/cosmos-sdk/types"
	authtypes "github.com/cosmos/cosmos-sdk/x/auth/types"
)

// Snapshot is the observable state of the six storage modules plus balances.
type Snapshot struct {
	Height     int64
	Orders     map[uint64]ordertypes.Order
	Shards     map[uint64]ordertypes.Shard
	OrderCount uint64
	ShardCount uint64
	Metas      map[string]modeltypes.Metadata
	Models     map[string]modeltypes.Model // by key
	ExpData    map[uint64][]string
	ExpShards  map[uint64][]uint64
	Timeouts   map[uint64][]uint64
	Nodes      map[string]nodetypes.Node
	Pledges    map[string]nodetypes.Pledge
	Debts      map[string]nodetypes.PledgeDebt
	Pool       nodetypes.Pool
	PoolFound  bool
	Workers    map[string]markettypes.Worker // by sp address
	Did        *didtypes.GenesisState
	Bal        map[string]sdk.Int // tracked accounts (bech) and module accounts by name ("mod:order")
	Supply     sdk.Int
	NodeRaw    map[string][]byte // raw KV of node-store prefixes with no genesis field
}

var StorageModules = []string{"order", "market", "node", "did"}

func ModAddr(name string) sdk.AccAddress { return authtypes.NewModuleAddress(name) }

// Snap reads the state visible at ctx.
func (c *Chain) Snap() *Snapshot {
	return SnapCtx(c.W, c.Ctx(), c.Height)
}

func SnapCtx(w *World, ctx sdk.Context, h int64) *Snapshot {
	a := w.App
	s := &Snapshot{Height: h}
	s.Orders = map[uint64]ordertypes.Order{}
	for _, o := range a.OrderKeeper.GetAllOrder(ctx) {
		s.Orders[o.Id] = o
	}
	s.Shards = map[uint64]ordertypes.Shard{}
	for _, sh := range a.OrderKeeper.GetAllShard(ctx) {
		s.Shards[sh.Id] = sh
	}
	s.OrderCount = a.OrderKeeper.GetOrderCount(ctx)
	s.ShardCount = a.OrderKeeper.GetShardCount(ctx)
	s.Metas = map[string]modeltypes.Metadata{}
	for _, m := range a.ModelKeeper.GetAllMetadata(ctx) {
		s.Metas[m.DataId] = m
	}
	s.Models = map[string]modeltypes.Model{}
	for _, m := range a.ModelKeeper.GetAllModel(ctx) {
		s.Models[m.Key] = m
	}
	s.ExpData = map[uint64][]string{}
	for _, e := range a.ModelKeeper.GetAllExpiredData(ctx) {
		s.ExpData[e.Height] = e.Data
	}
	s.ExpShards = map[uint64][]uint64{}
	for _, e := range a.SaoKeeper.GetAllExpiredShard(ctx) {
		s.ExpShards[e.Height] = e.ShardList
	}
	s.Timeouts = map[uint64][]uint64{}
	for _, e := range a.SaoKeeper.GetAllTimeoutOrder(ctx) {
		s.Timeouts[e.Height] = e.OrderList
	}
	s.Nodes = map[string]nodetypes.Node{}
	for _, n := range a.NodeKeeper.GetAllNode(ctx) {
		s.Nodes[n.Creator] = n
	}
	s.Pledges = map[string]nodetypes.Pledge{}
	for _, p := range a.NodeKeeper.GetAllPledge(ctx) {
		s.Pledges[p.Creator] = p
	}
	s.Debts = map[string]nodetypes.PledgeDebt{}
	for _, d := range a.NodeKeeper.GetAllPledgeDebt(ctx) {
		s.Debts[d.Sp] = d
	}
	s.Pool, s.PoolFound = a.NodeKeeper.GetPool(ctx)
	s.Workers = map[string]markettypes.Worker{}
	for _, wk := range a.MarketKeeper.GetAllWorker(ctx) {
		name := wk.Workername
		// workername = "<denom>-<sp>"
		for i := 0; i < len(name); i++ {
			if name[i] == '-' {
				name = name[i+1:]
				break
			}
		}
		s.Workers[name] = wk
	}
	s.Did = didExport(w, ctx)
	s.Bal = map[string]sdk.Int{}
	denom := w.Cfg.Denom
	for _, acc := range w.Accounts {
		s.Bal[acc.Bech] = a.BankKeeper.GetBalance(ctx, acc.Addr, denom).Amount
	}
	for _, m := range StorageModules {
		s.Bal["mod:"+m] = a.BankKeeper.GetBalance(ctx, ModAddr(m), denom).Amount
	}
	s.Supply = a.BankKeeper.GetSupply(ctx, denom).Amount
	s.NodeRaw = map[string][]byte{}
	nk := w.App.GetKey(nodetypes.StoreKey)
	for _, p := range []string{nodetypes.FaultIdKeyPrefix, nodetypes.FaultKeyPrefix, nodetypes.FishingRewardKey, nodetypes.NodeRoundKeyPrefix} {
		rawPrefix(ctx, nk, p, s.NodeRaw)
	}
	return s
}

func rawPrefix(ctx sdk.Context, key storetypes.StoreKey, p string, out map[string][]byte) {
	st := prefix.NewStore(ctx.KVStore(key), []byte(p))
	it := st.Iterator(nil, nil)
	defer it.Close()
	for ; it.Valid(); it.Next() {
		out[p+string(it.Key())] = append([]byte{}, it.Value()...)
	}
}

func didExport(w *World, ctx sdk.Context) *didtypes.GenesisState {
	k := w.App.DidKeeper
	g := didtypes.DefaultGenesis()
	g.AccountListList = k.GetAllAccountList(ctx)
	g.AccountAuthList = k.GetAllAccountAuth(ctx)
	g.SidDocumentList = k.GetAllSidDocument(ctx)
	g.SidDocumentVersionList = k.GetAllSidDocumentVersion(ctx)
	g.PastSeedsList = k.GetAllPastSeeds(ctx)
	g.PaymentAddressList = k.GetAllPaymentAddress(ctx)
	g.AccountIdList = k.GetAllAccountId(ctx)
	g.DidList = k.GetAllDid(ctx)
	g.KidList = k.GetAllKid(ctx)
	g.DidBalancesList = k.GetAllDidBalances(ctx)
	return g
}

// SortedU64 returns the sorted keys of a uint64-keyed map.
func SortedU64[V any](m map[uint64]V) []uint64 {
	ks := make([]uint64, 0, len(m))
	for k := range m {
		ks = append(ks, k)
	}
	sort.Slice(ks, func(i, j int) bool { return ks[i] < ks[j] })
	return ks
}

// SortedStr returns the sorted keys of a string-keyed map.
func SortedStr[V any](m map[string]V) []string {
	ks := make([]string, 0, len(m))
	for k := range m {
		ks = append(ks, k)
	}
	sort.Strings(ks)
	return ks
}

// NextScheduled returns the smallest height > h that has a timeout, shard
// expiry or data expiry entry, or 0 when none. Used only to aim block advance.
func (s *Snapshot) NextScheduled(h int64) int64 {
	best := int64(0)
	upd := func(x uint64) {
		if int64(x) > h && (best == 0 || int64(x) < best) {
			best = int64(x)
		}
	}
	for k := range s.ExpData {
		upd(k)
	}
	for k := range s.ExpShards {
		upd(k)
	}
	for k := range s.Timeouts {
		upd(k)
	}
	return best
}

var _ = saotypes.ModuleName
