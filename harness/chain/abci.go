package chain

import (
	"encoding/json"
	"fmt"
	"os"
	"time"

	"github.com/SaoNetwork/sao/app"
	"github.com/cosmos/cosmos-sdk/client"
	clienttx "github.com/cosmos/cosmos-sdk/client/tx"
	"github.com/cosmos/cosmos-sdk/crypto/keys/secp256k1"
	sdk "github.com/cosmos/cosmos-sdk/types"
	"github.com/cosmos/cosmos-sdk/types/tx/signing"
	authsigning "github.com/cosmos/cosmos-sdk/x/auth/signing"
	"github.com/ignite/cli/ignite/pkg/cosmoscmd"
	abci "github.com/tendermint/tendermint/abci/types"
	tmproto "github.com/tendermint/tendermint/proto/tendermint/types"
	dbm "github.com/tendermint/tm-db"
)

// TxSigner builds signed transactions the ante handler accepts.
type TxSigner struct {
	TxConfig client.TxConfig
	ChainID  string
}

func NewTxSigner(chainID string) *TxSigner {
	enc := encoding()
	return &TxSigner{TxConfig: enc.TxConfig, ChainID: chainID}
}

// Sign returns the encoded transaction carrying msgs, signed by priv (account number / sequence as given).
func (ts *TxSigner) Sign(priv *secp256k1.PrivKey, accNum, seq uint64, gas uint64, msgs ...sdk.Msg) ([]byte, error) {
	b := ts.TxConfig.NewTxBuilder()
	if err := b.SetMsgs(msgs...); err != nil {
		return nil, err
	}
	b.SetGasLimit(gas)
	mode := signing.SignMode_SIGN_MODE_DIRECT
	sig := signing.SignatureV2{PubKey: priv.PubKey(), Data: &signing.SingleSignatureData{SignMode: mode}, Sequence: seq}
	if err := b.SetSignatures(sig); err != nil {
		return nil, err
	}
	sd := authsigning.SignerData{ChainID: ts.ChainID, AccountNumber: accNum, Sequence: seq}
	sig, err := clienttx.SignWithPrivKey(mode, sd, b, priv, ts.TxConfig, seq)
	if err != nil {
		return nil, err
	}
	if err := b.SetSignatures(sig); err != nil {
		return nil, err
	}
	return ts.TxConfig.TxEncoder()(b.GetTx())
}

// ABCINode is one application instance driven only through ABCI (the L1 driver).
type ABCINode struct {
	App     *app.App
	Enc     cosmoscmd.EncodingConfig
	DB      dbm.DB
	Home    string
	ChainID string
}

// OpenNode opens (or re-opens) an application over a goleveldb under dir ("" = MemDB).
func OpenNode(dir string) (*ABCINode, error) {
	var db dbm.DB
	var err error
	home := dir
	if dir == "" {
		db = dbm.NewMemDB()
		home, err = os.MkdirTemp(scratchRoot(), "home")
		if err != nil {
			return nil, err
		}
	} else {
		db, err = dbm.NewGoLevelDB("application", dir)
		if err != nil {
			return nil, err
		}
	}
	a, enc := NewApp(db, home, true)
	return &ABCINode{App: a, Enc: enc, DB: db, Home: home}, nil
}

func (n *ABCINode) Close() {
	if n.DB != nil {
		n.DB.Close()
	}
}

// InitChain runs InitChain with the given app state.
func (n *ABCINode) InitChain(chainID string, genTime time.Time, initialHeight int64, state map[string]json.RawMessage) (err error) {
	defer func() {
		if r := recover(); r != nil {
			err = fmt.Errorf("InitChain panic: %v", r)
		}
	}()
	bz, e := json.Marshal(state)
	if e != nil {
		return e
	}
	n.ChainID = chainID
	n.App.InitChain(abci.RequestInitChain{ChainId: chainID, Time: genTime, InitialHeight: initialHeight, ConsensusParams: DefaultConsensusParams, AppStateBytes: bz})
	return nil
}

// TxOut is the consensus-relevant part of a DeliverTx response.
type TxOut struct {
	Code      uint32 `json:"code"`
	Codespace string `json:"codespace"`
	Data      []byte `json:"data"`
	GasWanted int64  `json:"gasWanted"`
	GasUsed   int64  `json:"gasUsed"`
	Events    string `json:"events"`
	Log       string `json:"log"`
}

func eventsString(evs []abci.Event) string {
	out := ""
	for _, e := range evs {
		out += e.Type + "{"
		for _, a := range e.Attributes {
			out += string(a.Key) + "=" + string(a.Value) + ";"
		}
		out += "}"
	}
	return out
}

func (n *ABCINode) BeginBlock(h int64, t time.Time, proposer []byte, appHash []byte) (panicked string) {
	defer func() {
		if r := recover(); r != nil {
			panicked = fmt.Sprint(r)
		}
	}()
	hdr := tmproto.Header{ChainID: n.ChainID, Height: h, Time: t, ProposerAddress: proposer, AppHash: appHash}
	n.App.BeginBlock(abci.RequestBeginBlock{Header: hdr})
	return ""
}

func (n *ABCINode) DeliverTx(tx []byte) TxOut {
	r := n.App.DeliverTx(abci.RequestDeliverTx{Tx: tx})
	return TxOut{Code: r.Code, Codespace: r.Codespace, Data: r.Data, GasWanted: r.GasWanted, GasUsed: r.GasUsed, Events: eventsString(r.Events), Log: r.Log}
}

func (n *ABCINode) CheckTx(tx []byte) uint32 {
	return n.App.CheckTx(abci.RequestCheckTx{Tx: tx, Type: abci.CheckTxType_New}).Code
}

func (n *ABCINode) Simulate(tx []byte) string {
	_, _, err := n.App.Simulate(tx)
	if err != nil {
		return err.Error()
	}
	return ""
}

func (n *ABCINode) Query(path string, data []byte) uint32 {
	return n.App.Query(abci.RequestQuery{Path: path, Data: data}).Code
}

func (n *ABCINode) EndBlock(h int64) (events string, valUpdates int, panicked string) {
	defer func() {
		if r := recover(); r != nil {
			panicked = fmt.Sprint(r)
		}
	}()
	r := n.App.EndBlock(abci.RequestEndBlock{Height: h})
	return eventsString(r.Events), len(r.ValidatorUpdates), ""
}

func (n *ABCINode) Commit() []byte {
	return n.App.Commit().Data
}
