package chain

import (
	"encoding/base64"
	"encoding/json"
	"fmt"

	didkeeper "github.com/SaoNetwork/sao/x/did/keeper"
	didtypes "github.com/SaoNetwork/sao/x/did/types"
	saotypes "github.com/SaoNetwork/sao/x/sao/types"
	"github.com/cosmos/cosmos-sdk/crypto/keys/secp256k1"
	"github.com/dvsekhvalnov/jose2go/base64url"
	"github.com/multiformats/go-multibase"
)

// Marshaler is implemented by every proposal type.
type Marshaler interface {
	Marshal() ([]byte, error)
}

// KeyDid returns the did:key of a secp256k1 key.
func KeyDid(priv *secp256k1.PrivKey) string {
	b := append([]byte{0xe7, 0x01}, priv.PubKey().Bytes()...)
	enc, _ := multibase.Encode(multibase.Base58BTC, b)
	return "did:key:" + enc
}

// KeyDidKid is the kid the reference provider uses for a did:key.
func KeyDidKid(did string) string {
	return did + "#" + did[len("did:key:"):]
}

// SignJWS signs payload under kid with priv, as sao-did's provider does.
func SignJWS(priv *secp256k1.PrivKey, kid string, payload []byte) saotypes.JwsSignature {
	hdr, _ := json.Marshal(struct {
		Kid string `json:"kid"`
		Alg string `json:"alg"`
	}{kid, "ES256K"})
	prot := base64url.Encode(hdr)
	input := prot + "." + base64url.Encode(payload)
	sig, err := priv.Sign([]byte(input))
	if err != nil {
		panic(err)
	}
	return saotypes.JwsSignature{Protected: prot, Signature: base64url.Encode(sig)}
}

// SignProposal marshals p and signs it.
func SignProposal(priv *secp256k1.PrivKey, kid string, p Marshaler) saotypes.JwsSignature {
	bz, err := p.Marshal()
	if err != nil {
		panic(err)
	}
	return SignJWS(priv, kid, bz)
}

// SidKeys builds the key document of a sid DID with one signing key.
func SidKeys(signing *secp256k1.PrivKey, extra ...*secp256k1.PrivKey) []*didtypes.PubKey {
	mk := func(p *secp256k1.PrivKey) string {
		b := append([]byte{0xe7, 0x01}, p.PubKey().Bytes()...)
		enc, _ := multibase.Encode(multibase.Base58BTC, b)
		return enc
	}
	keys := []*didtypes.PubKey{{Name: "signing", Value: mk(signing)}}
	for i, e := range extra {
		keys = append(keys, &didtypes.PubKey{Name: fmt.Sprintf("k%d", i), Value: mk(e)})
	}
	return keys
}

// SidDocId computes the document id of keys at ts.
func SidDocId(keys []*didtypes.PubKey, ts uint64) string {
	id, err := didkeeper.CalculateDocId(keys, ts)
	if err != nil {
		panic(err)
	}
	return id
}

// SidKid is the kid for did:sid:<root> at document version.
func SidKid(root, version, keyName string) string {
	return "did:sid:" + root + "?versionId=" + version + "#" + keyName
}

// CosmosBindingProof signs the amino sign-doc the did keeper re-derives.
func CosmosBindingProof(acc *Account, signer *secp256k1.PrivKey, did, message string, ts uint64) *didtypes.BindingProof {
	signBytes := didkeeper.GetSignData(acc.Bech, message)
	sig, err := signer.Sign(signBytes)
	if err != nil {
		panic(err)
	}
	s := "tendermint/PubKeySecp256k1." + base64.StdEncoding.EncodeToString(signer.PubKey().Bytes()) + "." + base64.StdEncoding.EncodeToString(sig)
	return &didtypes.BindingProof{Version: 1, Message: message, Signature: s, Account: acc.Bech, Did: did, Timestamp: ts}
}

// CosmosAccountId is the CAIP-10 id of a cosmos account on chainID.
func CosmosAccountId(chainID, bech string) string { return "cosmos:" + chainID + ":" + bech }
