package chain

import (
	"os"
	"strconv"
	"crypto/sha256"
	"encoding/binary"
	"fmt"
	"runtime/debug"
	"strings"
	"time"

	modelmodule "github.com/SaoNetwork/sao/x/model"
	nodemodule "github.com/SaoNetwork/sao/x/node"
	saomodule "github.com/SaoNetwork/sao/x/sao"
	sdk "github.com/cosmos/cosmos-sdk/types"
	abci "github.com/tendermint/tendermint/abci/types"
	"github.com/tendermint/tendermint/libs/log"
	tmproto "github.com/tendermint/tendermint/proto/tendermint/types"
)

// StepDeadline is the per-step liveness bound (C02); a normal step takes < 5 ms.
var StepDeadline = 20 * time.Second

func init() {
	// VERIF_STEP_DEADLINE_S: used by the driver when it re-executes a history whose step overran
	// the deadline, to tell a slow step on a loaded machine from an unbounded one
	if v := os.Getenv("VERIF_STEP_DEADLINE_MS"); v != "" { // for testing the driver's re-check path
		if n, err := strconv.Atoi(v); err == nil && n > 0 {
			StepDeadline = time.Duration(n) * time.Millisecond
		}
	}
	if v := os.Getenv("VERIF_STEP_DEADLINE_S"); v != "" {
		if n, err := strconv.Atoi(v); err == nil && n > 0 {
			StepDeadline = time.Duration(n) * time.Second
		}
	}
}

// HangError is returned by guarded steps that did not finish within StepDeadline.
type HangError struct{ Step string }

func (h *HangError) Error() string { return "step did not terminate within deadline: " + h.Step }

// HaltError is a panic inside a begin/end blocker: baseapp does not recover
// those, the node (and the chain) stops.
type HaltError struct {
	Step  string
	Value string
	Stack string
}

func (h *HaltError) Error() string { return fmt.Sprintf("chain halt in %s: %s", h.Step, h.Value) }

// Site returns the innermost /repo frame of the panic stack.
func (h *HaltError) Site() string { return repoFrame(h.Stack) }

func repoFrame(stack string) string {
	lines := strings.Split(stack, "\n")
	for i := 0; i+1 < len(lines); i++ {
		l := strings.TrimSpace(lines[i+1])
		if strings.HasPrefix(l, "/repo/") {
			fn := strings.TrimSpace(lines[i])
			if j := strings.LastIndex(fn, "("); j > 0 {
				fn = fn[:j]
			}
			if j := strings.LastIndex(fn, "/"); j >= 0 {
				fn = fn[j+1:]
			}
			file := l
			if j := strings.Index(file, " "); j > 0 {
				file = file[:j]
			}
			return fn + "@" + strings.TrimPrefix(file, "/repo/")
		}
	}
	return ""
}

type guardResult struct {
	panicked bool
	val      string
	stack    string
}

// guard runs f on a worker goroutine and waits at most StepDeadline.
func guard(step string, f func()) (*guardResult, error) {
	ch := make(chan *guardResult, 1)
	go func() {
		r := &guardResult{}
		defer func() {
			if v := recover(); v != nil {
				r.panicked = true
				r.val = fmt.Sprint(v)
				r.stack = string(debug.Stack())
			}
			ch <- r
		}()
		f()
	}()
	timer := time.NewTimer(StepDeadline)
	defer timer.Stop()
	select {
	case r := <-ch:
		return r, nil
	case <-timer.C:
		return nil, &HangError{Step: step}
	}
}

// Guard runs f under the step deadline; it reports a hang as *HangError and a panic as (value, stack).
func Guard(step string, f func()) (panicVal, stack string, err error) {
	r, err := guard(step, f)
	if err != nil {
		return "", "", err
	}
	if r.panicked {
		return r.val, r.stack, nil
	}
	return "", "", nil
}

// Chain is the L2 block driver: production handlers and blockers executed on a
// cache-wrapped multistore without IAVL commits.
type Chain struct {
	W       *World
	MS      sdk.CacheMultiStore
	Height  int64 // height of the block currently open (after BeginBlock)
	Time    time.Time
	Full    bool   // run all modules' blockers through the module manager
	Seed    []byte // header AppHash override of the current block (SeedSet) 
	SeedSet bool
	// NextSeed is the header AppHash of the block opened by the next BeginBlock.
	NextSeed    []byte
	NextSeedSet bool
	// NextTime is the header time of the block opened by the next BeginBlock (default: +5 s).
	NextTime    time.Time
	NextTimeSet bool
	InBlock bool
	// Trace hooks, called around lean blocker steps when non-nil.
	StepHook func(step string, before bool)
	logger   log.Logger
}

// NewChain takes the committed state of w as the starting point.
func NewChain(w *World) *Chain {
	c := &Chain{
		W:      w,
		MS:     w.App.CommitMultiStore().CacheMultiStore(),
		Height: w.App.LastBlockHeight(),
		Time:   w.Cfg.GenesisTime.Add(5 * time.Second),
		logger: log.NewNopLogger(),
	}
	return c
}

// Fork returns an independent copy-on-write child of the chain state.
func (c *Chain) Fork() *Chain {
	n := *c
	n.MS = c.MS.CacheMultiStore()
	n.StepHook = nil
	return &n
}

func derivedSeed(h int64) []byte {
	var b [8]byte
	binary.BigEndian.PutUint64(b[:], uint64(h))
	s := sha256.Sum256(b[:])
	return s[:]
}

func (c *Chain) header() tmproto.Header {
	hdr := tmproto.Header{ChainID: c.W.Cfg.ChainID, Height: c.Height, Time: c.Time}
	if c.SeedSet {
		hdr.AppHash = c.Seed
	} else {
		hdr.AppHash = derivedSeed(c.Height)
	}
	if len(c.W.ConsAddr) > 0 {
		hdr.ProposerAddress = c.W.ConsAddr[0]
	}
	return hdr
}

// Ctx returns a context over the chain state for the current block.
func (c *Chain) Ctx() sdk.Context {
	return sdk.NewContext(c.MS, c.header(), false, c.logger)
}

// BeginBlock opens block Height+1.
func (c *Chain) BeginBlock() error {
	if c.InBlock {
		return fmt.Errorf("BeginBlock while in block")
	}
	c.Height++
	if c.NextTimeSet {
		c.Time, c.NextTimeSet = c.NextTime, false
	} else {
		c.Time = c.Time.Add(5 * time.Second)
	}
	c.Seed, c.SeedSet = c.NextSeed, c.NextSeedSet
	c.NextSeed, c.NextSeedSet = nil, false
	ctx := c.Ctx()
	step := fmt.Sprintf("BeginBlock(%d)", c.Height)
	r, err := guard(step, func() {
		if c.Full {
			c.W.App.BeginBlocker(ctx, abci.RequestBeginBlock{Header: ctx.BlockHeader()})
		} else {
			c.hook("node.BeginBlocker", true)
			nodemodule.BeginBlocker(ctx, c.W.App.NodeKeeper)
			c.hook("node.BeginBlocker", false)
		}
	})
	if err != nil {
		return err
	}
	c.InBlock = true
	if r.panicked {
		return &HaltError{Step: step, Value: r.val, Stack: r.stack}
	}
	return nil
}

func (c *Chain) hook(step string, before bool) {
	if c.StepHook != nil {
		c.StepHook(step, before)
	}
}

// EndBlock closes the current block.
func (c *Chain) EndBlock() error {
	if !c.InBlock {
		return fmt.Errorf("EndBlock outside block")
	}
	ctx := c.Ctx()
	step := fmt.Sprintf("EndBlock(%d)", c.Height)
	r, err := guard(step, func() {
		if c.Full {
			c.W.App.EndBlocker(ctx, abci.RequestEndBlock{Height: c.Height})
		} else {
			c.hook("sao.EndBlocker", true)
			saomodule.EndBlocker(ctx, c.W.App.SaoKeeper)
			c.hook("sao.EndBlocker", false)
			c.hook("node.EndBlock", true)
			nodemodule.EndBlock(ctx, c.W.App.NodeKeeper)
			c.hook("node.EndBlock", false)
			c.hook("model.EndBlocker", true)
			modelmodule.EndBlocker(ctx, c.W.App.ModelKeeper)
			c.hook("model.EndBlocker", false)
		}
	})
	if err != nil {
		return err
	}
	c.InBlock = false
	if r.panicked {
		return &HaltError{Step: step, Value: r.val, Stack: r.stack}
	}
	return nil
}

// NextBlock closes the current block (if open) and opens the next one.
func (c *Chain) NextBlock() error {
	if c.InBlock {
		if err := c.EndBlock(); err != nil {
			return err
		}
	}
	return c.BeginBlock()
}

// TxResult is the outcome of one delivered message.
type TxResult struct {
	OK     bool
	Err    error
	Panic  string
	Stack  string
	Data   []byte
	Events []abci.Event
}

func (r *TxResult) ErrString() string {
	if r.OK {
		return ""
	}
	if r.Panic != "" {
		return "panic: " + r.Panic
	}
	if r.Err != nil {
		return r.Err.Error()
	}
	return "failed"
}

// Deliver executes msg the way baseapp.runTx does after the ante handler:
// ValidateBasic, handler on a cache context, write on success, recover panics.
func (c *Chain) Deliver(msg sdk.Msg) (*TxResult, error) {
	if !c.InBlock {
		if err := c.BeginBlock(); err != nil {
			return nil, err
		}
	}
	res := &TxResult{}
	if err := msg.ValidateBasic(); err != nil {
		res.Err = err
		return res, nil
	}
	handler := c.W.App.MsgServiceRouter().Handler(msg)
	if handler == nil {
		res.Err = fmt.Errorf("no handler for %T", msg)
		return res, nil
	}
	ctx := c.Ctx()
	cacheCtx, write := ctx.CacheContext()
	var out *sdk.Result
	var herr error
	r, err := guard(fmt.Sprintf("Deliver(%T)", msg), func() {
		out, herr = handler(cacheCtx, msg)
	})
	if err != nil {
		return nil, err
	}
	if r.panicked {
		res.Panic = r.val
		res.Stack = r.stack
		return res, nil
	}
	if herr != nil {
		res.Err = herr
		return res, nil
	}
	write()
	res.OK = true
	if out != nil {
		res.Data = out.Data
		res.Events = out.Events
	}
	return res, nil
}
