// Package chain contains the drivers that execute the real sao-consensus
// application in-process: genesis construction, actors with real keys, the
// fast block driver (L2) and the ABCI driver (L1).
package chain

import (
	"encoding/json"
	"fmt"
	"os"
	"sync"
	"time"

	"github.com/SaoNetwork/sao/app"
	nodetypes "github.com/SaoNetwork/sao/x/node/types"
	"github.com/cosmos/cosmos-sdk/codec"
	codectypes "github.com/cosmos/cosmos-sdk/codec/types"
	cryptocodec "github.com/cosmos/cosmos-sdk/crypto/codec"
	"github.com/cosmos/cosmos-sdk/crypto/keys/ed25519"
	"github.com/cosmos/cosmos-sdk/crypto/keys/secp256k1"
	"github.com/cosmos/cosmos-sdk/simapp"
	sdk "github.com/cosmos/cosmos-sdk/types"
	authtypes "github.com/cosmos/cosmos-sdk/x/auth/types"
	banktypes "github.com/cosmos/cosmos-sdk/x/bank/types"
	minttypes "github.com/cosmos/cosmos-sdk/x/mint/types"
	stakingtypes "github.com/cosmos/cosmos-sdk/x/staking/types"
	govtypes "github.com/cosmos/cosmos-sdk/x/gov/types"
	govv1 "github.com/cosmos/cosmos-sdk/x/gov/types/v1"
	"github.com/ignite/cli/ignite/pkg/cosmoscmd"
	abci "github.com/tendermint/tendermint/abci/types"
	"github.com/tendermint/tendermint/libs/log"
	tmproto "github.com/tendermint/tendermint/proto/tendermint/types"
	tmtypes "github.com/tendermint/tendermint/types"
	dbm "github.com/tendermint/tm-db"
)

const (
	ChainID = "sao-verif"
	Denom   = "sao"
)

var prefixOnce sync.Once

// Account is a secp256k1 account derived from a fixed secret.
type Account struct {
	Idx    int
	Secret []byte
	Priv   *secp256k1.PrivKey
	Addr   sdk.AccAddress
	Bech   string
}

func NewAccount(i int) *Account {
	prefixOnce.Do(func() { cosmoscmd.SetPrefixes("sao") })
	secret := []byte(fmt.Sprintf("acct-%d", i))
	priv := secp256k1.GenPrivKeyFromSecret(secret)
	addr := sdk.AccAddress(priv.PubKey().Address())
	return &Account{Idx: i, Secret: secret, Priv: priv, Addr: addr, Bech: addr.String()}
}

// GenesisConfig is the part of a world that is fixed at InitChain.
type GenesisConfig struct {
	NumAccounts   int
	NumValidators int
	Funds         int64 // per account, in Denom
	SelfBond      int64 // per validator
	NodeParams    *nodetypes.Params
	NodeGenesis   *nodetypes.GenesisState // optional complete override
	ChainID       string
	Denom         string
	GenesisTime   time.Time
	InitialHeight int64
	// ExtraAppState overrides module genesis JSON by module name (used by C18 re-init).
	ExtraAppState map[string]json.RawMessage
}

func DefaultGenesisConfig() GenesisConfig {
	return GenesisConfig{
		NumAccounts:   12,
		NumValidators: 2,
		Funds:         1_000_000_000_000,
		SelfBond:      1_000_000_000,
		ChainID:       ChainID,
		Denom:         Denom,
		GenesisTime:   time.Unix(1_700_000_000, 0).UTC(),
		InitialHeight: 1,
	}
}

// DefaultNodeParams returns parameters that keep rewards small but non-zero
// and thresholds reachable in tests.
func DefaultNodeParams(denom string) nodetypes.Params {
	return nodetypes.NewParams(
		sdk.NewInt64Coin(denom, 1000),          // block reward
		sdk.NewInt64Coin(denom, 1_000_000_000), // baseline
		sdk.NewDecWithPrec(50, 2),
		32000000,
		2000,
		"",
		1,
		10000,
		sdk.NewDecWithPrec(10, 2),
		10_000_000, // vstorage threshold (bytes)
		1_000_000, // offline trigger: far beyond generated histories (C02 varies it)
	)
}

// World is one application instance plus its actors.
type World struct {
	App      *app.App
	Enc      cosmoscmd.EncodingConfig
	Cfg      GenesisConfig
	Accounts []*Account
	ValPrivs []*ed25519.PrivKey
	ValAddrs []sdk.ValAddress
	ConsAddr []sdk.ConsAddress
	DB       dbm.DB
	Home     string
	GenState map[string]json.RawMessage
}

func encoding() cosmoscmd.EncodingConfig {
	prefixOnce.Do(func() { cosmoscmd.SetPrefixes("sao") })
	return cosmoscmd.MakeEncodingConfig(app.ModuleBasics)
}

// NewApp builds an App over db (MemDB when nil).
func NewApp(db dbm.DB, home string, loadLatest bool) (*app.App, cosmoscmd.EncodingConfig) {
	enc := encoding()
	if db == nil {
		db = dbm.NewMemDB()
	}
	a := app.New(log.NewNopLogger(), db, nil, loadLatest, map[int64]bool{}, home, 0, enc, simapp.EmptyAppOptions{}).(*app.App)
	return a, enc
}

// BuildGenesis produces the app-state map for cfg.
func BuildGenesis(enc cosmoscmd.EncodingConfig, cfg GenesisConfig) (map[string]json.RawMessage, []*Account, []*ed25519.PrivKey, error) {
	cdc := enc.Marshaler
	gs := app.ModuleBasics.DefaultGenesis(cdc)
	denom := cfg.Denom

	accounts := make([]*Account, cfg.NumAccounts)
	genAccs := make([]authtypes.GenesisAccount, 0, cfg.NumAccounts)
	balances := make([]banktypes.Balance, 0, cfg.NumAccounts+1)
	total := sdk.NewCoins()
	for i := 0; i < cfg.NumAccounts; i++ {
		accounts[i] = NewAccount(i)
		genAccs = append(genAccs, authtypes.NewBaseAccount(accounts[i].Addr, accounts[i].Priv.PubKey(), uint64(i), 0))
		c := sdk.NewCoins(sdk.NewInt64Coin(denom, cfg.Funds))
		balances = append(balances, banktypes.Balance{Address: accounts[i].Bech, Coins: c})
		total = total.Add(c...)
	}

	// validators
	valPrivs := make([]*ed25519.PrivKey, cfg.NumValidators)
	validators := make([]stakingtypes.Validator, 0, cfg.NumValidators)
	delegations := make([]stakingtypes.Delegation, 0, cfg.NumValidators)
	bonded := sdk.ZeroInt()
	for i := 0; i < cfg.NumValidators; i++ {
		valPrivs[i] = ed25519.GenPrivKeyFromSecret([]byte(fmt.Sprintf("val-%d", i)))
		pkAny, err := codectypes.NewAnyWithValue(valPrivs[i].PubKey())
		if err != nil {
			return nil, nil, nil, err
		}
		bond := sdk.NewInt(cfg.SelfBond)
		v := stakingtypes.Validator{
			OperatorAddress:   sdk.ValAddress(accounts[i].Addr).String(),
			ConsensusPubkey:   pkAny,
			Jailed:            false,
			Status:            stakingtypes.Bonded,
			Tokens:            bond,
			DelegatorShares:   sdk.NewDecFromInt(bond),
			Description:       stakingtypes.Description{Moniker: fmt.Sprintf("val-%d", i)},
			UnbondingHeight:   0,
			UnbondingTime:     time.Unix(0, 0).UTC(),
			Commission:        stakingtypes.NewCommission(sdk.ZeroDec(), sdk.ZeroDec(), sdk.ZeroDec()),
			MinSelfDelegation: sdk.OneInt(),
		}
		validators = append(validators, v)
		delegations = append(delegations, stakingtypes.NewDelegation(accounts[i].Addr, sdk.ValAddress(accounts[i].Addr), sdk.NewDecFromInt(bond)))
		bonded = bonded.Add(bond)
	}
	if cfg.NumValidators > 0 {
		bc := sdk.NewCoins(sdk.NewCoin(denom, bonded))
		balances = append(balances, banktypes.Balance{
			Address: authtypes.NewModuleAddress(stakingtypes.BondedPoolName).String(),
			Coins:   bc,
		})
		total = total.Add(bc...)
	}

	authGen := authtypes.NewGenesisState(authtypes.DefaultParams(), genAccs)
	gs[authtypes.ModuleName] = cdc.MustMarshalJSON(authGen)

	sp := stakingtypes.DefaultParams()
	sp.BondDenom = denom
	sp.UnbondingTime = 100 * time.Second
	sp.MaxValidators = 10
	stGen := stakingtypes.NewGenesisState(sp, validators, delegations)
	gs[stakingtypes.ModuleName] = cdc.MustMarshalJSON(stGen)

	// governance: a deposit anybody can afford and a voting period of three blocks, so that
	// parameter-change proposals can pass inside a generated history
	govGen := govv1.DefaultGenesisState()
	votingPeriod := 15 * time.Second
	govGen.VotingParams.VotingPeriod = &votingPeriod
	govGen.DepositParams.MinDeposit = sdk.NewCoins(sdk.NewInt64Coin(denom, 1000))
	gs[govtypes.ModuleName] = cdc.MustMarshalJSON(govGen)

	bankGen := banktypes.NewGenesisState(banktypes.DefaultGenesisState().Params, balances, total, []banktypes.Metadata{})
	gs[banktypes.ModuleName] = cdc.MustMarshalJSON(bankGen)

	// mint: zero inflation so that supply changes are attributable to x/node only
	mg := minttypes.DefaultGenesisState()
	mg.Minter.Inflation = sdk.ZeroDec()
	mg.Params.MintDenom = denom
	mg.Params.InflationMax = sdk.ZeroDec()
	mg.Params.InflationMin = sdk.ZeroDec()
	mg.Params.InflationRateChange = sdk.ZeroDec()
	gs[minttypes.ModuleName] = cdc.MustMarshalJSON(mg)

	// node module
	var ng *nodetypes.GenesisState
	if cfg.NodeGenesis != nil {
		ng = cfg.NodeGenesis
	} else {
		ng = nodetypes.DefaultGenesis()
		p := DefaultNodeParams(denom)
		if cfg.NodeParams != nil {
			p = *cfg.NodeParams
		} else if cfg.NumAccounts > 6 {
			// two designated fishmen (they act only once they register as nodes)
			p.FishmenInfo = accounts[5].Bech + "," + accounts[6].Bech
		}
		ng.Params = p
		ng.Pool = &nodetypes.Pool{
			TotalPledged:       sdk.NewInt64Coin(denom, 0),
			TotalReward:        sdk.NewInt64Coin(denom, 0),
			AccPledgePerByte:   sdk.NewInt64DecCoin(denom, 0),
			AccRewardPerByte:   sdk.NewInt64DecCoin(denom, 0),
			RewardPerBlock:     sdk.NewInt64DecCoin(denom, 0),
			NextRewardPerBlock: sdk.NewInt64DecCoin(denom, 0),
		}
	}
	gs[nodetypes.ModuleName] = cdc.MustMarshalJSON(ng)

	for k, v := range cfg.ExtraAppState {
		gs[k] = v
	}
	return gs, accounts, valPrivs, nil
}

// NewWorld builds an app over a MemDB and runs InitChain plus one committed block.
func NewWorld(cfg GenesisConfig) (*World, error) {
	home, err := os.MkdirTemp(scratchRoot(), "home")
	if err != nil {
		return nil, err
	}
	a, enc := NewApp(nil, home, true)
	w := &World{App: a, Enc: enc, Cfg: cfg, Home: home}
	gs, accs, vals, err := BuildGenesis(enc, cfg)
	if err != nil {
		return nil, err
	}
	w.GenState = gs
	w.Accounts = accs
	w.ValPrivs = vals
	for i := range vals {
		w.ValAddrs = append(w.ValAddrs, sdk.ValAddress(accs[i].Addr))
		w.ConsAddr = append(w.ConsAddr, sdk.ConsAddress(vals[i].PubKey().Address()))
	}
	if err := app.ModuleBasics.ValidateGenesis(enc.Marshaler, enc.TxConfig, gs); err != nil {
		return nil, fmt.Errorf("genesis does not validate: %w", err)
	}
	if err := w.InitChain(); err != nil {
		return nil, err
	}
	return w, nil
}

func (w *World) Close() {
	if w.Home != "" {
		os.RemoveAll(w.Home)
	}
}

// InitChain runs the real ABCI InitChain and commits the first block.
func (w *World) InitChain() (err error) {
	defer func() {
		if r := recover(); r != nil {
			err = fmt.Errorf("InitChain panic: %v", r)
		}
	}()
	stateBytes, e := json.Marshal(w.GenState)
	if e != nil {
		return e
	}
	h := w.Cfg.InitialHeight
	if h == 0 {
		h = 1
	}
	w.App.InitChain(abci.RequestInitChain{
		ChainId:         w.Cfg.ChainID,
		Time:            w.Cfg.GenesisTime,
		InitialHeight:   h,
		Validators:      []abci.ValidatorUpdate{},
		ConsensusParams: DefaultConsensusParams,
		AppStateBytes:   stateBytes,
	})
	hdr := tmproto.Header{ChainID: w.Cfg.ChainID, Height: h, Time: w.Cfg.GenesisTime.Add(5 * time.Second)}
	if len(w.ConsAddr) > 0 {
		hdr.ProposerAddress = w.ConsAddr[0]
	}
	w.App.BeginBlock(abci.RequestBeginBlock{Header: hdr})
	w.App.EndBlock(abci.RequestEndBlock{Height: h})
	w.App.Commit()
	return nil
}

var DefaultConsensusParams = &abci.ConsensusParams{
	Block:     &abci.BlockParams{MaxBytes: 2000000, MaxGas: -1},
	Evidence:  &tmproto.EvidenceParams{MaxAgeNumBlocks: 302400, MaxAgeDuration: 504 * time.Hour, MaxBytes: 10000},
	Validator: &tmproto.ValidatorParams{PubKeyTypes: []string{tmtypes.ABCIPubKeyTypeEd25519}},
}

func scratchRoot() string {
	d := os.Getenv("VERIF_SCRATCH")
	if d == "" {
		d = "/verif/.scratch"
	}
	os.MkdirAll(d, 0o755)
	return d
}

// ScratchRoot exposes the scratch directory root.
func ScratchRoot() string { return scratchRoot() }

var _ = codec.NewLegacyAmino
var _ = cryptocodec.RegisterCrypto
