// Package replica runs an application instance in a child process (the L3 driver): a real
// process boundary is the only faithful model of "another node" and of "restart".
package replica

import (
	"bufio"
	"crypto/sha256"
	"encoding/json"
	"fmt"
	"io"
	"os"
	"os/exec"
	"syscall"
	"time"

	"saoverif/chain"

	storetypes "github.com/cosmos/cosmos-sdk/store/types"
	sdk "github.com/cosmos/cosmos-sdk/types"
	tmproto "github.com/tendermint/tendermint/proto/tendermint/types"
)

var CustomStores = []string{"sao", "node", "order", "model", "did", "market"}

type Req struct {
	Op            string                     `json:"op"`
	Genesis       map[string]json.RawMessage `json:"genesis,omitempty"`
	ChainID       string                     `json:"chainId,omitempty"`
	GenTime       int64                      `json:"genTime,omitempty"`
	InitialHeight int64                      `json:"initialHeight,omitempty"`
	Height        int64                      `json:"height,omitempty"`
	Time          int64                      `json:"time,omitempty"`
	Proposer      []byte                     `json:"proposer,omitempty"`
	AppHash       []byte                     `json:"appHash,omitempty"`
	Tx            []byte                     `json:"tx,omitempty"`
	Path          string                     `json:"path,omitempty"`
	Data          []byte                     `json:"data,omitempty"`
	Full          bool                       `json:"full,omitempty"`
	Count         int64                      `json:"count,omitempty"`
}

type Resp struct {
	Err       string            `json:"err,omitempty"`
	Panic     string            `json:"panic,omitempty"`
	Tx        *chain.TxOut      `json:"tx,omitempty"`
	Hash      []byte            `json:"hash,omitempty"`
	Events    string            `json:"events,omitempty"`
	Code      uint32            `json:"code,omitempty"`
	Height    int64             `json:"height,omitempty"`
	Info      string            `json:"info,omitempty"`
	Export    json.RawMessage   `json:"export,omitempty"`
	KV        map[string]string `json:"kv,omitempty"`
	KVHash    string            `json:"kvHash,omitempty"`
	Vals      int               `json:"vals,omitempty"`
	Hashes    [][]byte          `json:"hashes,omitempty"`
	EvDigests [][]byte          `json:"evDigests,omitempty"`
}

// Serve is the child side: it executes requests read from stdin until EOF.
func Serve(dir string) {
	n, err := chain.OpenNode(dir)
	if err != nil {
		fmt.Fprintln(os.Stderr, "replica open:", err)
		os.Exit(3)
	}
	in := bufio.NewReaderSize(os.Stdin, 1<<20)
	out := bufio.NewWriter(os.Stdout)
	enc := json.NewEncoder(out)
	dec := json.NewDecoder(in)
	for {
		var rq Req
		if err := dec.Decode(&rq); err != nil {
			if err == io.EOF {
				return
			}
			fmt.Fprintln(os.Stderr, "replica decode:", err)
			os.Exit(3)
		}
		rs := handle(n, &rq)
		if err := enc.Encode(rs); err != nil {
			os.Exit(3)
		}
		out.Flush()
		if rq.Op == "quit" {
			n.Close()
			return
		}
	}
}

func handle(n *chain.ABCINode, rq *Req) (rs *Resp) {
	rs = &Resp{}
	defer func() {
		if r := recover(); r != nil {
			rs.Panic = fmt.Sprint(r)
		}
	}()
	switch rq.Op {
	case "init":
		if err := n.InitChain(rq.ChainID, time.Unix(0, rq.GenTime).UTC(), rq.InitialHeight, rq.Genesis); err != nil {
			rs.Err = err.Error()
		}
	case "chainid":
		n.ChainID = rq.ChainID
	case "begin":
		rs.Panic = n.BeginBlock(rq.Height, time.Unix(0, rq.Time).UTC(), rq.Proposer, rq.AppHash)
	case "deliver":
		o := n.DeliverTx(rq.Tx)
		rs.Tx = &o
	case "check":
		rs.Code = n.CheckTx(rq.Tx)
	case "simulate":
		rs.Info = n.Simulate(rq.Tx)
	case "query":
		rs.Code = n.Query(rq.Path, rq.Data)
	case "end":
		rs.Events, rs.Vals, rs.Panic = n.EndBlock(rq.Height)
	case "empty_blocks":
		// rq.Count times: close the open block rq.Height+i, commit, open the next one 5 s later.
		// Returns the application hash and a digest of the EndBlock response of every block.
		t := time.Unix(0, rq.Time).UTC()
		for i := int64(0); i < rq.Count; i++ {
			ev, vals, p := n.EndBlock(rq.Height + i)
			if p != "" {
				rs.Panic = fmt.Sprintf("EndBlock(%d): %s", rq.Height+i, p)
				return rs
			}
			h := n.Commit()
			d := sha256.Sum256([]byte(fmt.Sprintf("%s|vals=%d", ev, vals)))
			rs.Hashes = append(rs.Hashes, h)
			rs.EvDigests = append(rs.EvDigests, d[:])
			t = t.Add(5 * time.Second)
			if p := n.BeginBlock(rq.Height+i+1, t, rq.Proposer, h); p != "" {
				rs.Panic = fmt.Sprintf("BeginBlock(%d): %s", rq.Height+i+1, p)
				return rs
			}
		}
	case "commit":
		rs.Hash = n.Commit()
	case "info":
		rs.Height = n.App.LastBlockHeight()
		rs.Hash = n.App.LastCommitID().Hash
	case "export":
		ex, err := n.App.ExportAppStateAndValidators(false, nil)
		if err != nil {
			rs.Err = err.Error()
		} else {
			rs.Export = ex.AppState
			rs.Height = ex.Height
		}
	case "kv":
		kv := DumpKV(n)
		rs.KVHash = HashKV(kv)
		if rq.Full {
			rs.KV = kv
		}
	case "bal":
		var addrs []string
		json.Unmarshal(rq.Data, &addrs)
		ctx := n.App.NewContext(true, tmproto.Header{Height: n.App.LastBlockHeight()})
		rs.KV = map[string]string{}
		for _, a := range addrs {
			acc, err := sdk.AccAddressFromBech32(a)
			if err == nil {
				rs.KV[a] = n.App.BankKeeper.GetAllBalances(ctx, acc).String()
			}
		}
	case "quit":
	default:
		rs.Err = "unknown op " + rq.Op
	}
	return rs
}

// DumpKV returns the raw key/values of the six custom stores at the last committed state.
func DumpKV(n *chain.ABCINode) map[string]string {
	ctx := n.App.NewContext(true, tmproto.Header{Height: n.App.LastBlockHeight()})
	return DumpKVCtx(ctx, n.App.GetKey)
}

// DumpKVCtx dumps the six custom stores visible at ctx.
func DumpKVCtx(ctx sdk.Context, getKey func(string) *storetypes.KVStoreKey) map[string]string {
	out := map[string]string{}
	for _, name := range CustomStores {
		dumpStore(ctx, getKey(name), name, out)
	}
	return out
}

// HashKV is the digest reported by the "kv" operation.
func HashKV(kv map[string]string) string {
	h := sha256.New()
	for _, k := range sortedKeys(kv) {
		h.Write([]byte(k))
		h.Write([]byte{0})
		h.Write([]byte(kv[k]))
		h.Write([]byte{0})
	}
	return fmt.Sprintf("%x", h.Sum(nil))
}

func dumpStore(ctx sdk.Context, key storetypes.StoreKey, name string, out map[string]string) {
	it := ctx.KVStore(key).Iterator(nil, nil)
	defer it.Close()
	for ; it.Valid(); it.Next() {
		out[name+"/"+fmt.Sprintf("%x", it.Key())] = fmt.Sprintf("%x", it.Value())
	}
}

func sortedKeys(m map[string]string) []string {
	ks := make([]string, 0, len(m))
	for k := range m {
		ks = append(ks, k)
	}
	sortStrings(ks)
	return ks
}

func sortStrings(a []string) {
	for i := 1; i < len(a); i++ {
		for j := i; j > 0 && a[j] < a[j-1]; j-- {
			a[j], a[j-1] = a[j-1], a[j]
		}
	}
}

// Client is the parent side of one replica process.
type Client struct {
	Dir  string
	cmd  *exec.Cmd
	in   io.WriteCloser
	dec  *json.Decoder
	enc  *json.Encoder
	dead bool
}

// Start spawns the current binary as a replica server over dir.
func Start(dir string) (*Client, error) {
	cmd := exec.Command(os.Args[0], "-test.run", "^$")
	cmd.Env = append(os.Environ(), "VERIF_REPLICA="+dir)
	cmd.Stderr = os.Stderr
	in, err := cmd.StdinPipe()
	if err != nil {
		return nil, err
	}
	outp, err := cmd.StdoutPipe()
	if err != nil {
		return nil, err
	}
	if err := cmd.Start(); err != nil {
		return nil, err
	}
	return &Client{Dir: dir, cmd: cmd, in: in, dec: json.NewDecoder(bufio.NewReaderSize(outp, 1<<20)), enc: json.NewEncoder(in)}, nil
}

// Call sends one request and waits for the answer.
func (c *Client) Call(rq *Req) (*Resp, error) {
	if c.dead {
		return nil, fmt.Errorf("replica is dead")
	}
	if err := c.enc.Encode(rq); err != nil {
		return nil, err
	}
	var rs Resp
	done := make(chan error, 1)
	go func() { done <- c.dec.Decode(&rs) }()
	select {
	case err := <-done:
		if err != nil {
			return nil, err
		}
		return &rs, nil
	case <-time.After(120 * time.Second):
		c.Kill()
		return nil, fmt.Errorf("replica call %s timed out", rq.Op)
	}
}

// Kill sends SIGKILL: nothing the process holds in memory survives.
func (c *Client) Kill() {
	if c.dead {
		return
	}
	c.dead = true
	c.cmd.Process.Signal(syscall.SIGKILL)
	c.cmd.Wait()
}

// Quit closes the database cleanly and ends the process.
func (c *Client) Quit() {
	if c.dead {
		return
	}
	c.Call(&Req{Op: "quit"})
	c.dead = true
	c.in.Close()
	c.cmd.Wait()
}
