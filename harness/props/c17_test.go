package props

import (
	"crypto/ecdsa"
	"crypto/sha256"
	"encoding/hex"
	"fmt"
	"strings"
	"testing"

	"saoverif/chain"

	didkeeper "github.com/SaoNetwork/sao/x/did/keeper"
	didtypes "github.com/SaoNetwork/sao/x/did/types"
	"github.com/cosmos/cosmos-sdk/crypto/keys/secp256k1"
	sdk "github.com/cosmos/cosmos-sdk/types"
	ethcrypto "github.com/ethereum/go-ethereum/crypto"
	"pgregory.net/rapid"
)

// ---- C17: DID registry integrity ----

// account references: "c<i>" cosmos account i on this chain, "e<i>" ethereum key i, "o<i>" cosmos account i on another chain id
func ethKey(i int) *ecdsa.PrivateKey {
	h := sha256.Sum256([]byte(fmt.Sprintf("eth-%d", i)))
	k, err := ethcrypto.ToECDSA(h[:])
	if err != nil {
		panic(err)
	}
	return k
}

func (s *Sim) acctId(ref string) string {
	i := atoi(ref[1:])
	switch ref[0] {
	case 'c':
		return chain.CosmosAccountId(s.W.Cfg.ChainID, s.bech(i))
	case 'o':
		return chain.CosmosAccountId("otherchain-1", s.bech(i))
	case 'T':
		// cosmos account i on this chain, written with a trailing (empty) segment
		return chain.CosmosAccountId(s.W.Cfg.ChainID, s.bech(i)) + ":"
	case 'E':
		// the same ethereum account as "e<i>", spelled with its EIP-55 checksum capitals
		return "eip155:1:" + ethcrypto.PubkeyToAddress(ethKey(i).PublicKey).Hex()
	case 'U':
		// ... and all in capitals
		return "eip155:1:0x" + strings.ToUpper(ethcrypto.PubkeyToAddress(ethKey(i).PublicKey).Hex()[2:])
	default:
		return "eip155:1:" + strings.ToLower(ethcrypto.PubkeyToAddress(ethKey(i).PublicKey).Hex())
	}
}

// canonAccountId: two account ids that differ only in the letter case of an ethereum address name the same account.
func canonAccountId(id string) string {
	id = strings.TrimRight(id, ":") // an empty trailing segment names nothing
	if strings.HasPrefix(id, "eip155:") {
		return strings.ToLower(id)
	}
	return id
}

func isEth(ref string) bool { return ref[0] == 'e' || ref[0] == 'E' || ref[0] == 'U' }

func acctDid(ref string) string { return "did:key:acct-" + ref }

func sidPriv(creator int, ts uint64, gen int) *secp256k1.PrivKey {
	if gen == 0 {
		return secp256k1.GenPrivKeyFromSecret([]byte(fmt.Sprintf("sid-%d-%d", creator, ts)))
	}
	return secp256k1.GenPrivKeyFromSecret([]byte(fmt.Sprintf("sid-%d-%d-gen%d", creator, ts, gen)))
}

// signProof signs message for the account ref with signer's key.
func (s *Sim) signProof(ref, signer, pubOf, message string) string {
	switch ref[0] {
	case 'c', 'o', 'T':
		addr := s.bech(atoi(ref[1:]))
		sk := s.acct(atoi(signer[1:])).Priv
		if isEth(signer) {
			sk = secp256k1.GenPrivKeyFromSecret([]byte("not-an-account"))
		}
		pk := sk.PubKey()
		if pubOf != "" && !isEth(pubOf) {
			pk = s.acct(atoi(pubOf[1:])).Priv.PubKey()
		}
		sig, _ := sk.Sign(didkeeper.GetSignData(addr, message))
		return "tendermint/PubKeySecp256k1." + b64(pk.Bytes()) + "." + b64(sig)
	default:
		k := ethKey(atoi(ref[1:]))
		if isEth(signer) {
			k = ethKey(atoi(signer[1:]))
		} else {
			k = ethKey(90 + atoi(signer[1:]))
		}
		hash := ethcrypto.Keccak256([]byte("\u0019Ethereum Signed Message:\n" + fmt.Sprint(len(message)) + message))
		sig, _ := ethcrypto.Sign(hash, k)
		sig[64] += 27
		return "0x" + hex.EncodeToString(sig)
	}
}

func bindMessage(did string, ts uint64) string {
	return "Link this account to your did: " + did + "\nTimestamp: " + fmt.Sprint(ts)
}

// buildDidBind: see the field conventions in the generator below.
func (s *Sim) buildDidBind(a *Action) sdk.Msg {
	ref := a.Extra["acct"]
	var root, did string
	var keys []*didtypes.PubKey
	if a.Owner >= 0 && a.Owner < len(s.Dids) && s.Dids[a.Owner].Kind == "sid" {
		d := s.Dids[a.Owner]
		root, did = d.Root, d.Did
		keys = chain.SidKeys(d.Priv)
	} else {
		keys = chain.SidKeys(sidPriv(a.Creator, a.Ts, 0))
		root = chain.SidDocId(keys, a.Ts)
		did = "did:sid:" + root
	}
	msgDid := did
	if v, ok := a.Extra["msgDid"]; ok && v != "" {
		msgDid = v
	}
	message := bindMessage(msgDid, a.Ts)
	signer := a.Extra["proofSigner"]
	if signer == "" {
		signer = ref
	}
	sig := s.signProof(ref, signer, a.Extra["proofPub"], message)
	if rp := a.Extra["replayOf"]; rp != "" {
		// a proof captured from an earlier binding message, reused verbatim
		prev := s.Hist[atoi(rp)]
		message, sig = prev.Extra["_message"], prev.Extra["_sig"]
	}
	if rp := a.Extra["replayOf"]; rp != "" {
		msgDid = s.Hist[atoi(rp)].Extra["_msgDid"]
	}
	a.Extra["_message"], a.Extra["_sig"], a.Extra["_did"], a.Extra["_msgDid"] = message, sig, did, msgDid
	acctAddr := ref
	if !isEth(ref) {
		acctAddr = s.bech(atoi(ref[1:]))
	}
	return &didtypes.MsgBinding{
		Creator:     s.bech(a.Creator),
		AccountId:   s.acctId(ref),
		RootDocId:   root,
		Keys:        keys,
		AccountAuth: &didtypes.AccountAuth{AccountDid: acctDid(ref), AccountEncryptedSeed: "seed", SidEncryptedAccount: "acc"},
		Proof:       &didtypes.BindingProof{Version: 1, Message: message, Signature: sig, Account: acctAddr, Did: did, Timestamp: a.Ts},
	}
}

func (s *Sim) buildDidUpdate(a *Action) sdk.Msg {
	d := s.Dids[a.Owner]
	gen := atoi(a.Extra["gen"])
	newPriv := sidPriv(d.Acct, d.Ts, gen)
	keys := chain.SidKeys(newPriv)
	newDoc := chain.SidDocId(keys, a.Ts)
	if a.Extra["docId"] != "" {
		newDoc = a.Extra["docId"]
	}
	m := &didtypes.MsgUpdate{Creator: s.bech(a.Creator), Did: d.Did, NewDocId: newDoc, Keys: keys, Timestamp: a.Ts, PastSeed: a.Extra["pastSeed"]}
	for _, ref := range strings.Fields(a.Extra["keep"]) {
		m.UpdateAccountAuth = append(m.UpdateAccountAuth, &didtypes.AccountAuth{AccountDid: acctDid(ref), AccountEncryptedSeed: "seed2", SidEncryptedAccount: "acc2"})
	}
	for _, ref := range strings.Fields(a.Extra["remove"]) {
		m.RemoveAccountDid = append(m.RemoveAccountDid, acctDid(ref))
	}
	a.Extra["_newDoc"] = newDoc
	return m
}

func b64(b []byte) string { return base64Std(b) }

// C17Oracle: invariants J1-J4, J6 on the exported did state after every message, transition rule J5 on bindings.
type C17Oracle struct {
	NopOracle
	keyPay     map[string]string // key DID -> payment address once set
	Rejected   map[string]int
	MaxBound   int
	Bindings   int
}

func (o *C17Oracle) Name() string { return "C17" }

func (o *C17Oracle) AfterAction(s *Sim, a *Action, pre, post *chain.Snapshot, res *chain.TxResult) {
	if !res.OK && a.Extra["variant"] != "" && a.Extra["variant"] != "valid" {
		if o.Rejected == nil {
			o.Rejected = map[string]int{}
		}
		o.Rejected[a.Kind+"/"+a.Extra["variant"]]++
		s.Label("c17-rejected:" + a.Kind + "/" + a.Extra["variant"])
	}
	if res.OK && a.Extra["variant"] != "" {
		s.Label("c17-accepted:" + a.Kind + "/" + a.Extra["variant"])
	}
	o.transition(s, a, pre, post, res)
	o.invariants(s, post, a)
}

func didOf(sn *chain.Snapshot, accountId string) (string, bool) {
	for _, d := range sn.Did.DidList {
		if d.AccountId == accountId {
			return d.Did, true
		}
	}
	return "", false
}

func (o *C17Oracle) transition(s *Sim, a *Action, pre, post *chain.Snapshot, res *chain.TxResult) {
	// J5: every Did record that appears was created by a binding with a proper proof
	for _, d := range post.Did.DidList {
		if _, had := didOf(pre, d.AccountId); had {
			continue
		}
		trig := map[string]string{"variant": a.Extra["variant"]}
		if a.Kind != "did_bind" || !res.OK {
			s.FailT("binding-appeared-without-binding-message", "", trig, "account %s became bound to %s by %s", d.AccountId, tail(d.Did), a.Kind)
		}
		ref := a.Extra["acct"]
		if d.AccountId != s.acctId(ref) {
			s.FailT("binding-for-other-account", "", trig, "binding message for %s created a binding of %s", s.acctId(ref), d.AccountId)
		}
		o.Bindings++
		signer := a.Extra["proofSigner"]
		if signer == "" {
			signer = ref
		}
		if signer != ref {
			s.FailT("proof-not-by-account-key", "", trig, "account %s bound to %s with a proof signed by the key of %s", d.AccountId, tail(d.Did), signer)
		}
		if rp := a.Extra["replayOf"]; rp != "" {
			prev := s.Hist[atoi(rp)]
			if prev.Extra["_msgDid"] != d.Did {
				s.Tolerate("proof-for-another-did", "", map[string]string{"how": "replayed-proof"}, "account %s bound to %s with a captured proof whose signed message accepts %s (%q)", d.AccountId, tail(d.Did), tail(prev.Extra["_msgDid"]), prev.Extra["_message"])
			}
		} else if md := a.Extra["msgDid"]; md != "" && md != d.Did {
			s.Tolerate("proof-for-another-did", "", map[string]string{"how": "message-names-other-did"}, "account %s bound to %s but the message it signed accepts %s", d.AccountId, tail(d.Did), tail(md))
		}
		// freshness by the block clock (which clock the code reads is C01's question)
		blockNow := uint64(s.C.Time.Unix())
		if a.Ts+900 < blockNow {
			s.FailT("stale-proof-accepted", "", trig, "account %s bound with a proof of timestamp %d; now is %d (older than 15 minutes)", d.AccountId, a.Ts, blockNow)
		}
		// once the DID exists, the submitter must already be bound to it
		existed := false
		for _, v := range pre.Did.SidDocumentVersionList {
			if "did:sid:"+v.DocId == d.Did {
				existed = true
			}
		}
		if existed {
			cd, ok := didOf(pre, chain.CosmosAccountId(s.W.Cfg.ChainID, s.bech(a.Creator)))
			if !ok || cd != d.Did {
				s.FailT("binding-by-outsider", "", trig, "account %s bound to existing %s by %s which is not bound to it", d.AccountId, tail(d.Did), tail(s.bech(a.Creator)))
			}
		}
	}
	// J6 / sid payment account cannot be unbound
	if a.Kind == "did_update" && res.OK {
		s.Label("c17-update-ok")
	}
	// J4: key DID payment address set only by that address itself, never changes
	if o.keyPay == nil {
		o.keyPay = map[string]string{}
	}
	for _, p := range post.Did.PaymentAddressList {
		if !strings.HasPrefix(p.Did, "did:key:") {
			continue
		}
		old, had := o.keyPay[p.Did]
		if had && old != p.Address {
			s.FailT("key-did-payment-address-changed", "", nil, "payment address of %s changed from %s to %s", tail(p.Did), tail(old), tail(p.Address))
		}
		if !had {
			if a.Kind != "set_payaddr" || s.bech(a.Creator) != p.Address {
				s.FailT("key-did-payment-address-set-by-other", "", nil, "payment address of %s set to %s by %s (%s)", tail(p.Did), tail(p.Address), a.Kind, tail(s.bech(a.Creator)))
			}
			o.keyPay[p.Did] = p.Address
		}
	}
	for did := range o.keyPay {
		found := false
		for _, p := range post.Did.PaymentAddressList {
			if p.Did == did {
				found = true
			}
		}
		if !found {
			s.FailT("key-did-payment-address-removed", "", nil, "payment address of %s disappeared", tail(did))
		}
	}
}

func (o *C17Oracle) invariants(s *Sim, sn *chain.Snapshot, a *Action) {
	g := sn.Did
	lists := map[string][]string{}
	for _, l := range g.AccountListList {
		lists[l.Did] = l.AccountDids
	}
	accId := map[string]string{}
	for _, x := range g.AccountIdList {
		accId[x.AccountDid] = x.AccountId
	}
	auth := map[string]bool{}
	for _, x := range g.AccountAuthList {
		auth[x.AccountDid] = true
	}
	// J2: an account DID occurs at most once over all lists
	seen := map[string]string{}
	for did, l := range lists {
		if len(l) > o.MaxBound {
			o.MaxBound = len(l)
		}
		for _, ad := range l {
			if prev, dup := seen[ad]; dup {
				s.FailT("account-did-listed-twice", "", nil, "%s is listed by %s and %s", ad, tail(prev), tail(did))
			}
			seen[ad] = did
		}
	}
	// J1 (=>): every binding has exactly one list entry
	bound := map[string]int{}
	for _, d := range g.DidList {
		bound[canonAccountId(d.AccountId)]++
		if bound[canonAccountId(d.AccountId)] > 1 {
			s.FailT("account-bound-twice", "", nil, "account %s has two bindings", d.AccountId)
		}
		n := 0
		for _, ad := range lists[d.Did] {
			if accId[ad] == d.AccountId {
				n++
				if !auth[ad] {
					s.FailT("bound-account-without-auth", "", nil, "account %s is bound to %s but its AccountAuth %s is missing", d.AccountId, tail(d.Did), ad)
				}
			}
		}
		if n != 1 {
			s.FailT("binding-not-in-account-list", "", nil, "account %s is bound to %s but appears %d times in that DID's account list %v", d.AccountId, tail(d.Did), n, lists[d.Did])
		}
	}
	// J1 (<=): every list entry is a live binding to that DID
	for did, l := range lists {
		for _, ad := range l {
			id, ok := accId[ad]
			if !ok {
				s.FailT("listed-account-without-id", "", nil, "%s lists %s which has no AccountId record", tail(did), ad)
			}
			bd, ok := didOf(sn, id)
			if !ok || bd != did {
				s.FailT("listed-account-not-bound", "", nil, "%s lists %s (%s) but that account is bound to %q", tail(did), ad, id, bd)
			}
		}
	}
	// J3: a sid DID's payment address is one of its bound accounts on this chain
	for _, p := range g.PaymentAddressList {
		if !strings.HasPrefix(p.Did, "did:sid:") {
			continue
		}
		bd, ok := didOf(sn, chain.CosmosAccountId(s.W.Cfg.ChainID, p.Address))
		if !ok || bd != p.Did {
			s.FailT("sid-payment-address-not-bound", "", map[string]string{"after": a.Kind}, "payment address %s of %s is not (any longer) an account bound to it (bound to %q)", tail(p.Address), tail(p.Did), bd)
		}
	}
	// J4: an address is linked to at most one key DID
	byAddr := map[string]string{}
	for _, p := range g.PaymentAddressList {
		if strings.HasPrefix(p.Did, "did:key:") {
			if other, dup := byAddr[p.Address]; dup {
				s.FailT("address-linked-to-two-key-dids", "", nil, "address %s is the payment address of %s and %s", tail(p.Address), tail(other), tail(p.Did))
			}
			byAddr[p.Address] = p.Did
		}
	}
}

func c17Property(t *rapid.T) {
	o := &C17Oracle{}
	s := NewSim(t, "C17", o)
	aborted := RunCase(func() {
		now := uint64(s.C.Time.Unix())
		cos := []string{"c2", "c3", "c4", "c5", "c6"}
		all := append(append([]string{}, cos...), "e0", "e1", "o7", "E0", "U1", "T3", "T4")
		var sids []int // indexes into s.Dids
		gen := map[int]int{}
		var binds []int // history indexes of successful-or-not bind messages (for replays)
		tsFresh := func() uint64 {
			return now - uint64(rapid.IntRange(0, 600).Draw(t, "age"))
		}
		n := rapid.IntRange(2, 30).Draw(t, "steps")
		for i := 0; i < n; i++ {
			switch rapid.IntRange(0, 9).Draw(t, "step") {
			case 0, 1, 2, 3, 4:
				a := NewAction("did_bind", 0)
				ref := rapid.SampledFrom(all).Draw(t, "acct")
				a.Extra = map[string]string{"acct": ref, "variant": "valid"}
				a.Creator = atoi(rapid.SampledFrom(cos).Draw(t, "submitter")[1:])
				if ref[0] == 'c' && rapid.IntRange(0, 2).Draw(t, "selfSubmit") > 0 {
					a.Creator = atoi(ref[1:])
				}
				a.Ts = tsFresh()
				if len(sids) > 0 && rapid.IntRange(0, 2).Draw(t, "existing") > 0 {
					a.Owner = sids[rapid.IntRange(0, len(sids)-1).Draw(t, "did")]
					// honest: submitted by an account already bound to that DID
					if rapid.IntRange(0, 3).Draw(t, "byMember") > 0 {
						a.Creator = s.Dids[a.Owner].Acct
					}
				}
				switch rapid.IntRange(0, 11).Draw(t, "variant") {
				case 0:
					a.Extra["variant"] = "signed-by-other-key"
					a.Extra["proofSigner"] = rapid.SampledFrom(all[:7]).Draw(t, "signer")
					if a.Extra["proofSigner"] == ref {
						a.Extra["variant"] = "valid"
					}
				case 1:
					if !isEth(ref) {
						a.Extra["variant"] = "pubkey-of-account-signature-of-other"
						a.Extra["proofSigner"] = rapid.SampledFrom(cos).Draw(t, "signer")
						a.Extra["proofPub"] = ref
						if a.Extra["proofSigner"] == ref {
							a.Extra["variant"] = "valid"
						}
					}
				case 2:
					a.Extra["variant"] = "message-names-other-did"
					a.Extra["msgDid"] = "did:sid:" + hex.EncodeToString([]byte("someone-else-entirely-0000000000"))
					if len(sids) > 0 {
						a.Extra["msgDid"] = s.Dids[sids[rapid.IntRange(0, len(sids)-1).Draw(t, "msgDid")]].Did
					}
				case 3:
					if len(binds) > 0 {
						a.Extra["variant"] = "replayed-proof"
						rp := binds[rapid.IntRange(0, len(binds)-1).Draw(t, "replayOf")]
						a.Extra["replayOf"] = fmt.Sprint(rp)
						a.Extra["acct"] = s.Hist[rp].Extra["acct"]
						a.Ts = s.Hist[rp].Ts
						if a.Owner < 0 {
							// a new DID derives its id from the timestamp: vary the creator so that it differs
							a.Creator = atoi(rapid.SampledFrom(cos).Draw(t, "submitter2")[1:])
						}
					}
				case 4:
					a.Extra["variant"] = "stale-timestamp"
					a.Ts = now - uint64(rapid.IntRange(905, 100000).Draw(t, "staleAge"))
				case 5:
					if a.Owner >= 0 {
						a.Extra["variant"] = "submitted-by-outsider"
						a.Creator = atoi(rapid.SampledFrom(cos).Draw(t, "outsider")[1:])
					}
				}
				res := s.Do(a)
				binds = append(binds, len(s.Hist)-1)
				if res.OK && a.Owner < 0 {
					priv := sidPriv(a.Creator, a.Ts, 0)
					root := chain.SidDocId(chain.SidKeys(priv), a.Ts)
					acct := a.Creator
					s.Dids = append(s.Dids, &DidRef{Kind: "sid", Acct: acct, Did: "did:sid:" + root, Kid: chain.SidKid(root, root, "signing"), Priv: priv, Root: root, Version: root, Ts: a.Ts})
					sids = append(sids, len(s.Dids)-1)
				}
			case 5, 6:
				if len(sids) == 0 {
					continue
				}
				di := sids[rapid.IntRange(0, len(sids)-1).Draw(t, "did")]
				d := s.Dids[di]
				a := NewAction("did_update", d.Acct)
				a.Owner = di
				gen[di]++
				a.Ts = tsFresh()
				a.Extra = map[string]string{"gen": fmt.Sprint(gen[di]), "variant": "valid", "pastSeed": fmt.Sprintf("seed-%d-%d", di, gen[di])}
				// current accounts of the DID
				var members []string
				for _, l := range s.Last.Did.AccountListList {
					if l.Did == d.Did {
						for _, ad := range l.AccountDids {
							members = append(members, strings.TrimPrefix(ad, "did:key:acct-"))
						}
					}
				}
				pay := payAddrOf(s.Last, d.Did)
				var keep, remove []string
				for _, m := range members {
					isPay := m[0] == 'c' && s.bech(atoi(m[1:])) == pay
					if !isPay && rapid.Bool().Draw(t, "remove") {
						remove = append(remove, m)
					} else {
						keep = append(keep, m)
					}
				}
				switch rapid.IntRange(0, 9).Draw(t, "uvariant") {
				case 0:
					a.Extra["variant"] = "remove-payment-account"
					var k2 []string
					for _, m := range keep {
						if m[0] == 'c' && s.bech(atoi(m[1:])) == pay {
							remove = append(remove, m)
						} else {
							k2 = append(k2, m)
						}
					}
					keep = k2
				case 1:
					if len(keep) > 1 {
						a.Extra["variant"] = "account-unhandled"
						keep = keep[1:]
					}
				case 2:
					if len(remove) > 0 {
						a.Extra["variant"] = "duplicate-remove"
						remove = append(remove, remove[0])
					}
				case 3:
					a.Extra["variant"] = "foreign-account-did"
					remove = append(remove, "c9")
				case 4:
					a.Extra["variant"] = "reused-past-seed"
					a.Extra["pastSeed"] = fmt.Sprintf("seed-%d-%d", di, 1)
				case 5:
					a.Extra["variant"] = "stale-timestamp"
					a.Ts = now - uint64(rapid.IntRange(905, 100000).Draw(t, "staleAge"))
				case 6:
					a.Extra["variant"] = "submitted-by-outsider"
					a.Creator = atoi(rapid.SampledFrom(cos).Draw(t, "outsider")[1:])
				}
				if len(remove) == 0 && a.Extra["variant"] == "valid" {
					a.Extra["variant"] = "nothing-to-remove"
				}
				a.Extra["keep"], a.Extra["remove"] = strings.Join(keep, " "), strings.Join(remove, " ")
				if s.Do(a).OK {
					d.Priv = sidPriv(d.Acct, d.Ts, gen[di])
					d.Version = a.Extra["_newDoc"]
					d.Kid = chain.SidKid(d.Root, d.Version, "signing")
				}
			default:
				a := NewAction("set_payaddr", atoi(rapid.SampledFrom(cos).Draw(t, "submitter")[1:]))
				a.Extra = map[string]string{"variant": "valid"}
				a.Target = atoi(rapid.SampledFrom(cos).Draw(t, "address")[1:])
				if len(sids) > 0 && rapid.Bool().Draw(t, "sid") {
					a.Owner = sids[rapid.IntRange(0, len(sids)-1).Draw(t, "did")]
					a.Extra["variant"] = "sid"
				} else {
					a.Owner = rapid.IntRange(2, 6).Draw(t, "keyDid") // did:key of that account
					a.Extra["variant"] = "key"
					if a.Target != a.Creator {
						a.Extra["variant"] = "key-by-other"
					}
				}
				s.Do(a)
			}
		}
	})
	if aborted != "" {
		stats.Abort(aborted)
		return
	}
	nt := o.MaxBound >= 2 && len(o.Rejected) >= 2
	stats.Record(s.HistHash(), nt, s.Labels, s.Excluded, func() any { return c17Summary(s) })
}

func c17Summary(s *Sim) []string {
	var out []string
	for _, a := range s.Hist {
		st := "ok"
		if !a.OK {
			st = "rejected(" + short(a.Err) + ")"
		}
		did := ""
		if a.Owner >= 0 && a.Owner < len(s.Dids) {
			did = tail(s.Dids[a.Owner].Did)
		}
		out = append(out, fmt.Sprintf("%s by=%d acct=%s did=%s variant=%s keep=[%s] remove=[%s] -> %s", a.Kind, a.Creator, a.Extra["acct"], did, a.Extra["variant"], a.Extra["keep"], a.Extra["remove"], st))
	}
	return out
}

func TestC17(t *testing.T) { runRapid(t, "TestC17", c17Property) }

func init() {
	replayers["TestC17"] = func(t TB, v *Violation) {
		o := &C17Oracle{}
		s := NewSim(t, "C17", o)
		aborted := RunCase(func() {
			for _, a := range v.History {
				b := *a
				b.OK, b.Err, b.Note = false, "", ""
				res := s.Do(&b)
				if b.Kind == "did_bind" && res.OK && b.Owner < 0 {
					priv := sidPriv(b.Creator, b.Ts, 0)
					root := chain.SidDocId(chain.SidKeys(priv), b.Ts)
					s.Dids = append(s.Dids, &DidRef{Kind: "sid", Acct: b.Creator, Did: "did:sid:" + root, Kid: chain.SidKid(root, root, "signing"), Priv: priv, Root: root, Version: root, Ts: b.Ts})
				}
				if b.Kind == "did_update" && res.OK {
					d := s.Dids[b.Owner]
					d.Priv = sidPriv(d.Acct, d.Ts, atoi(b.Extra["gen"]))
					d.Version = b.Extra["_newDoc"]
				}
			}
		})
		_ = aborted
	}
}
