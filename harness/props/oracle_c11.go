package props

import (
	"fmt"

	"saoverif/chain"

	modeltypes "github.com/SaoNetwork/sao/x/model/types"
	ordertypes "github.com/SaoNetwork/sao/x/order/types"
)

// C11Oracle: reference model of paid lifetimes. A stored shard, its model and alias stay
// until exactly paidUntil = stored + duration + renewals, unless legitimately ended earlier.
type C11Oracle struct {
	NopOracle
	shards   map[uint64]*mShard
	orderDur map[uint64]uint64 // order id -> paid duration (from the successful store / renew action)
	Reached  int               // shards that reached paidUntil through block advance
	Classes  map[string]int
}

type mShard struct {
	id        uint64
	dataId    string
	sp        string
	paidUntil uint64
	ended     string // "" while live
	renewed   bool
	migrated  bool
	commit    string
}

func NewC11() *C11Oracle {
	return &C11Oracle{shards: map[uint64]*mShard{}, orderDur: map[uint64]uint64{}, Classes: map[string]int{}}
}

func (o *C11Oracle) Name() string { return "C11" }

func (o *C11Oracle) AfterAction(s *Sim, a *Action, pre, post *chain.Snapshot, res *chain.TxResult) {
	if !res.OK {
		return
	}
	h := uint64(s.C.Height)
	switch a.Kind {
	case "store":
		o.orderDur[a.Order] = a.Duration
	case "complete":
		// which shard became completed?
		for _, id := range chain.SortedU64(post.Shards) {
			sh := post.Shards[id]
			p, had := pre.Shards[id]
			if sh.Status != ordertypes.ShardCompleted || !had || p.Status == ordertypes.ShardCompleted {
				continue
			}
			dataId, commit := "", ""
			if ord, ok := post.Orders[a.Order]; ok {
				dataId, commit = ord.DataId, ord.Commit
			} else if ord, ok := pre.Orders[a.Order]; ok {
				dataId, commit = ord.DataId, ord.Commit
			}
			if p.Status == ordertypes.ShardMigrating {
				// hand-over: the new shard takes the remaining term of the old one
				var old *mShard
				for _, m := range o.shards {
					if m.ended == "" && m.sp == p.From && m.dataId == dataId {
						if _, still := post.Shards[m.id]; !still {
							old = m
						}
					}
				}
				if old == nil {
					continue // the old shard was not tracked (e.g. completed before tracking began)
				}
				old.ended = "migrated"
				o.shards[id] = &mShard{id: id, dataId: dataId, sp: sh.Sp, paidUntil: old.paidUntil, renewed: old.renewed, migrated: true, commit: old.commit}
				s.sched[int64(old.paidUntil)] = true
				continue
			}
			dur, ok := o.orderDur[a.Order]
			if !ok {
				continue
			}
			o.shards[id] = &mShard{id: id, dataId: dataId, sp: sh.Sp, paidUntil: h + dur, commit: commit}
			s.sched[int64(h+dur)] = true
			// a completed force-push ends the shards of the version it replaces
			if ord, ok := pre.Orders[a.Order]; ok && ord.Operation == 2 && ord.Status != ordertypes.OrderCompleted {
				replaced := latestCommit(pre.Metas[dataId])
				for _, m := range o.shards {
					if m.ended == "" && m.dataId == dataId && m.id != id && m.commit == replaced {
						m.ended = "force-replaced"
					}
				}
			}
		}
	case "renew":
		for _, d := range a.Data {
			meta, ok := pre.Metas[d]
			if !ok {
				continue
			}
			// did this data id succeed? a renewal order for it exists in post and not in pre
			var renewOrder *ordertypes.Order
			for _, id := range chain.SortedU64(post.Orders) {
				if _, old := pre.Orders[id]; old {
					continue
				}
				ord := post.Orders[id]
				if ord.Operation == 3 && ord.DataId == d {
					renewOrder = &ord
				}
			}
			if renewOrder == nil {
				continue
			}
			o.orderDur[renewOrder.Id] = a.Duration
			cur, ok := pre.Orders[meta.OrderId]
			if !ok {
				continue
			}
			for _, sid := range cur.Shards {
				if m, ok := o.shards[sid]; ok && m.ended == "" {
					if psh, ok := pre.Shards[sid]; ok && psh.Status == ordertypes.ShardCompleted {
						m.paidUntil += a.Duration
						m.renewed = true
						s.sched[int64(m.paidUntil)] = true
					}
				}
			}
		}
	case "terminate":
		for _, m := range o.shards {
			if m.ended == "" && m.dataId == a.DataId {
				m.ended = "terminated"
			}
		}
	}
}

func (o *C11Oracle) Boundary(s *Sim, sn *chain.Snapshot) {
	// when the last shard an order lists has gone, the order goes too
	for _, id := range chain.SortedU64(sn.Orders) {
		ord := sn.Orders[id]
		if len(ord.Shards) == 0 || ord.Status != ordertypes.OrderCompleted {
			continue
		}
		alive := 0
		for _, sid := range ord.Shards {
			if _, ok := sn.Shards[sid]; ok {
				alive++
			}
		}
		if alive == 0 {
			s.FailT("order-outlived-its-shards", "", map[string]string{"op": fmt.Sprint(ord.Operation)}, "h=%d order %d (op %d) is still on chain although every shard it lists %v has been released", sn.Height, id, ord.Operation, ord.Shards)
		}
	}
	h := uint64(sn.Height)
	liveByData := map[string]int{}
	endedNow := map[string]bool{}
	for _, id := range chain.SortedU64(o.shards) {
		m := o.shards[id]
		if m.ended != "" {
			continue
		}
		sh, exists := sn.Shards[id]
		trig := map[string]string{"renewed": fmt.Sprint(m.renewed), "migrated": fmt.Sprint(m.migrated)}
		if h < m.paidUntil {
			liveByData[m.dataId]++
			if !exists {
				s.FailT("shard-released-early", "", trig, "h=%d shard %d of %s (sp %s) is gone but is paid until %d", h, id, tail(m.dataId), tail(m.sp), m.paidUntil)
			}
			if sh.Status != ordertypes.ShardCompleted {
				s.FailT("shard-not-stored-in-term", "", trig, "h=%d shard %d has status %d during its paid term (until %d)", h, id, sh.Status, m.paidUntil)
			}
			if sh.Sp != m.sp {
				s.FailT("shard-provider-changed", "", trig, "h=%d shard %d moved from %s to %s without migration", h, id, tail(m.sp), tail(sh.Sp))
			}
			if w, ok := sn.Workers[m.sp]; !ok || w.Storage < sh.Size_ {
				s.FailT("income-stopped-early", "", trig, "h=%d provider %s no longer earns for shard %d (paid until %d)", h, tail(m.sp), id, m.paidUntil)
			}
			continue
		}
		// h >= paidUntil: released, exactly at that boundary
		if exists {
			s.FailT("shard-released-late", "", trig, "h=%d shard %d of %s still exists (status %d, period %d+%d, %d renewals queued) but its paid term ended at %d",
				h, id, tail(m.dataId), sh.Status, sh.CreatedAt, sh.Duration, len(sh.RenewInfos), m.paidUntil)
		}
		m.ended = "expired"
		endedNow[m.dataId] = true
		o.Reached++
		s.Label("c11-reached")
		if m.renewed {
			s.Label("c11-after-renewal")
		}
		if m.migrated {
			s.Label("c11-after-migration")
		}
	}
	// the model exists while a paid shard remains ...
	for _, d := range chain.SortedStr(liveByData) {
		meta, ok := sn.Metas[d]
		if !ok {
			s.FailT("model-gone-with-paid-shard", "", nil, "h=%d data model %s does not exist although %d paid, unexpired shard(s) of it remain", h, tail(d), liveByData[d])
		}
		key := fmt.Sprintf("%s-%s-%s", meta.Owner, meta.Alias, meta.GroupId)
		if _, ok := sn.Models[key]; !ok {
			s.FailT("alias-gone-with-paid-shard", "", nil, "h=%d alias %q of live model %s does not exist", h, key, tail(d))
		}
	}
	// ... and disappears when its last shard goes
	for _, d := range chain.SortedStr(endedNow) {
		if liveByData[d] > 0 {
			continue
		}
		meta, ok := sn.Metas[d]
		if !ok {
			continue
		}
		// an order still in flight for this id (a new version being stored) keeps the model
		inflight := meta.Status != modeltypes.MetaComplete
		for _, ord := range sn.Orders {
			if ord.DataId == d && ord.Status != ordertypes.OrderCompleted {
				inflight = true
			}
		}
		// shards of this model the oracle does not track (completed before tracking) - none in generated histories
		untracked := false
		for _, sh := range sn.Shards {
			if _, tracked := o.shards[sh.Id]; !tracked && sh.Status == ordertypes.ShardCompleted {
				if ord, ok := sn.Orders[sh.OrderId]; ok && ord.DataId == d {
					untracked = true
				}
			}
		}
		if !inflight && !untracked {
			s.FailT("model-outlives-last-shard", "", nil, "h=%d the last paid shard of data model %s ended but the model still exists (Duration=%d CreatedAt=%d)", h, tail(d), meta.Duration, meta.CreatedAt)
		}
	}
}
