package props

import (
	"fmt"
	"math/big"
	"testing"

	"saoverif/chain"

	nodetypes "github.com/SaoNetwork/sao/x/node/types"
	"pgregory.net/rapid"
)

// genPopulation draws a node population with every eligibility input varied.
func genPopulation(t *rapid.T, s *Sim, size uint64, withSuper bool) *Action {
	n := rapid.IntRange(3, len(s.W.Accounts)).Draw(t, "nNodes")
	a := NewAction("install", 0)
	a.Round = -1
	supers := 0
	for i := 0; i < n; i++ {
		ns := NodeSpec{Acct: i}
		switch rapid.IntRange(0, 13).Draw(t, "statusClass") {
		case 0:
			ns.Status = 0
		case 1:
			ns.Status = StatusFull &^ nodetypes.NODE_STATUS_ONLINE
		case 2:
			ns.Status = StatusFull &^ nodetypes.NODE_STATUS_ACCEPT_ORDER
		case 3:
			ns.Status = StatusFull &^ nodetypes.NODE_STATUS_SERVE_STORAGE
		default:
			ns.Status = StatusFull
		}
		ns.Rep = rapid.SampledFrom([]float32{0, 7999.9, 8000, 10000, 10000, 10000, 1e9}).Draw(t, "rep")
		ns.LastAlive = int64(rapid.IntRange(0, 50).Draw(t, "lastAlive"))
		switch rapid.IntRange(0, 9).Draw(t, "capClass") {
		case 0:
			ns.Total, ns.Used = 0, 0
		case 1:
			ns.Total, ns.Used = int64(size)+100, 101 // free = size-1
		case 2:
			ns.Total, ns.Used = int64(size)+100, 100 // free = size
		case 3:
			ns.NoPledge = true
		default:
			ns.Total, ns.Used = 1<<40, int64(rapid.IntRange(0, 1000).Draw(t, "used"))
		}
		if withSuper && rapid.IntRange(0, 3).Draw(t, "super") == 0 {
			ns.Role = 1
			supers++
		}
		a.Nodes = append(a.Nodes, ns)
	}
	if supers > 0 {
		s.Label("super-present")
	}
	if supers > 0 || rapid.Bool().Draw(t, "setRound") {
		// a cursor value the chain can have reached: below the largest number of super nodes that may have existed
		a.Round = rapid.IntRange(0, n-1).Draw(t, "round")
	}
	return a
}

func selectProperty(prop string) func(t *rapid.T) {
	return func(t *rapid.T) { selectCase(t, prop) }
}

func selectCase(t *rapid.T, prop string) {
	o := &C15Oracle{}
	var s *Sim
	if prop == "C15" {
		s = NewSim(t, prop, o)
	} else {
		s = NewSim(t, prop) // C02: only termination / no panic escaping the step guard
	}
	aborted := RunCase(func() {
		size := rapid.SampledFrom([]uint64{1, 1000, 1_000_000, 123_456_789}).Draw(t, "size")
		s.Do(genPopulation(t, s, size, rapid.Bool().Draw(t, "withSuper")))
		cfg := DefaultLifeCfg()
		calls := rapid.IntRange(1, 12).Draw(t, "calls")
		for i := 0; i < calls; i++ {
			if rapid.IntRange(0, 2).Draw(t, "reseed") == 0 {
				s.Do(cfg.GenSeed(t, s))
			}
			a := NewAction("select", 0)
			a.Size = size
			if rapid.IntRange(0, 3).Draw(t, "bigCount") == 0 {
				a.Count = rapid.IntRange(1, len(s.Last.Nodes)+2).Draw(t, "count")
			} else {
				a.Count = rapid.IntRange(1, 4).Draw(t, "count")
			}
			a.Ignore = rapid.SliceOfNDistinct(rapid.IntRange(0, len(s.W.Accounts)-1), 0, 4, func(i int) int { return i }).Draw(t, "ignore")
			s.Do(a)
		}
	})
	if aborted != "" {
		stats.Abort(aborted)
		return
	}
	nt := o.Wrongable > 0
	if prop != "C15" {
		nt = s.Labels["super-present"] > 0
	}
	stats.Record(s.HistHash(), nt, s.Labels, s.Excluded, func() any { return s.Summary() })
}

func TestC15Direct(t *testing.T) { runRapid(t, "TestC15Direct", selectProperty("C15")) }
func TestC02Select(t *testing.T) { runRapid(t, "TestC02Select", selectProperty("C02")) }

func init() {
	replayers["TestC15Direct"] = func(t TB, v *Violation) {
		s := NewSim(t, "C15", &C15Oracle{})
		replayHistory(s, v.History)
	}
	replayers["TestC02Select"] = func(t TB, v *Violation) {
		s := NewSim(t, "C02")
		replayHistory(s, v.History)
	}
}

// ---- in situ: every assignment made by Store / timeout handling / Migrate in lifecycle histories ----

var specC15 = &lifeSpec{
	Prop: "C15", Test: "TestC15InSitu", VaryWorld: true,
	Oracles: func() []Oracle { return []Oracle{&C15Oracle{}} },
	Tune: func(cfg *LifeCfg, s *Sim) {
		s.TraceSteps = true
	},
	Pre: func(t *rapid.T, s *Sim, cfg *LifeCfg, os []Oracle) {
		// half of the worlds have providers that are full after one or two shards of a megabyte
		if rapid.Bool().Draw(t, "smallCapacity") {
			cfg.Capacity = uint64(rapid.SampledFrom([]int{1_000_000, 2_000_000, 3_000_000}).Draw(t, "capacity"))
			s.Label("world-small-capacity")
		}
	},
	Nontrivial: func(s *Sim, os []Oracle) bool { return os[0].(*C15Oracle).Wrongable > 0 },
	Weights:    map[string]int{"complete": 2, "advance": 4, "storeNew": 3, "storeHostile": 1, "seed": 1, "vstorage": 1, "migrate": 2, "resetNode": 2, "secondMigration": 2, "fillThenZero": 2},
}

func init() { specC15.register() }

func TestC15InSitu(t *testing.T) { runRapid(t, "TestC15InSitu", specC15.property()) }

// ---- pure functions ----

func genSeedInt(t *rapid.T) *big.Int {
	switch rapid.IntRange(0, 4).Draw(t, "seedShape") {
	case 0:
		return big.NewInt(0)
	case 1:
		return big.NewInt(int64(rapid.IntRange(0, 9).Draw(t, "digit")))
	case 2:
		return big.NewInt(int64(rapid.IntRange(0, 100000).Draw(t, "small")))
	case 3:
		b := rapid.SliceOfN(rapid.Byte(), 32, 32).Draw(t, "hash")
		return new(big.Int).SetBytes(b)
	default:
		// long runs of one digit
		d := rapid.IntRange(0, 9).Draw(t, "d")
		n := rapid.IntRange(1, 77).Draw(t, "len")
		str := ""
		for i := 0; i < n; i++ {
			str += fmt.Sprint(d)
		}
		v, _ := new(big.Int).SetString(str, 10)
		return v
	}
}

type pureInput struct {
	Seed  string `json:"seed"`
	Total int    `json:"total"`
	Count int    `json:"count"`
}

func failPure(prop, test, rule, detail string, in any) {
	v := &Violation{Property: prop, Rule: rule, Detail: detail, Test: test, Extra: map[string]any{"input": in}}
	lastViolation = v
	writeViolation(v)
}

func randomIndexCheck(tb TB, prop, test string, in pureInput) {
	w, err := BaseWorld()
	if err != nil {
		infra("%v", err)
	}
	seed, _ := new(big.Int).SetString(in.Seed, 10)
	var idx []int
	pv, _, gerr := chain.Guard("RandomIndex", func() { idx = w.App.NodeKeeper.RandomIndex(seed, in.Total, in.Count) })
	if gerr != nil {
		failPure(prop, test, "hang", fmt.Sprintf("RandomIndex(seed=%s,total=%d,count=%d) did not terminate", in.Seed, in.Total, in.Count), in)
		hardExitViolation()
	}
	if pv != "" {
		failPure(prop, test, "panic", fmt.Sprintf("RandomIndex(seed=%s,total=%d,count=%d) panicked: %s", in.Seed, in.Total, in.Count, pv), in)
		tb.Fatalf("RandomIndex panicked: %s", pv)
	}
	if prop == "C15" {
		if why := refIndexValid(idx, in.Total, in.Count); why != "" {
			failPure(prop, test, "invalid-index-set", fmt.Sprintf("RandomIndex(seed=%s,total=%d,count=%d)=%v: %s", in.Seed, in.Total, in.Count, idx, why), in)
			tb.Fatalf("invalid index set %v: %s", idx, why)
		}
	}
}

func randomIndexProperty(prop, test string) func(*rapid.T) {
	return func(t *rapid.T) {
		total := rapid.IntRange(0, 16).Draw(t, "total")
		count := rapid.IntRange(0, total+1).Draw(t, "count")
		in := pureInput{Seed: genSeedInt(t).String(), Total: total, Count: count}
		randomIndexCheck(t, prop, test, in)
		nt := total > count && count >= 2
		h := fmt.Sprintf("%s/%d/%d", in.Seed, total, count)
		stats.Record(h, nt, map[string]int{fmt.Sprintf("count>=2:%v", nt): 1}, nil, func() any { return in })
	}
}

func pureReplayer(prop, test string) func(t TB, v *Violation) {
	return func(t TB, v *Violation) {
		var in pureInput
		bz, _ := jsonMarshal(v.Extra["input"])
		jsonUnmarshal(bz, &in)
		randomIndexCheck(t, prop, test, in)
	}
}

func TestC15RandomIndex(t *testing.T) {
	runRapid(t, "TestC15RandomIndex", randomIndexProperty("C15", "TestC15RandomIndex"))
}
func TestC02RandomIndex(t *testing.T) {
	runRapid(t, "TestC02RandomIndex", randomIndexProperty("C02", "TestC02RandomIndex"))
}

func init() {
	replayers["TestC15RandomIndex"] = pureReplayer("C15", "TestC15RandomIndex")
	replayers["TestC02RandomIndex"] = pureReplayer("C02", "TestC02RandomIndex")
}

// TestC15RandomIndexBox enumerates the box 0<=count<total<=8 x seeds 0..20000 completely.
func TestC15RandomIndexBox(t *testing.T) {
	currentTest = "TestC15RandomIndexBox"
	maxSeed := 20000
	if tierThorough() {
		maxSeed = 200000
	}
	n, nt := 0, 0
	for total := 1; total <= 8; total++ {
		for count := 0; count < total; count++ {
			for sd := 0; sd <= maxSeed; sd++ {
				in := pureInput{Seed: fmt.Sprint(sd), Total: total, Count: count}
				randomIndexCheck(fatalT{t}, "C15", "TestC15RandomIndex", in)
				n++
				if count >= 2 {
					nt++
				}
			}
		}
	}
	stats.mu.Lock()
	stats.Evaluations += n
	stats.Extra["exhaustive_box"] = fmt.Sprintf("RandomIndex: all 0<=count<total<=8 x seeds 0..%d (%d calls, %d with count>=2)", maxSeed, n, nt)
	stats.Extra["box_calls"] = n
	stats.mu.Unlock()
}

type fatalT struct{ t *testing.T }

func (f fatalT) Fatalf(format string, args ...any) { f.t.Fatalf(format, args...) }
func (f fatalT) Logf(format string, args ...any)   { f.t.Logf(format, args...) }
