package props

import (
	"fmt"
	"reflect"
	"testing"

	"saoverif/chain"

	modeltypes "github.com/SaoNetwork/sao/x/model/types"
	ordertypes "github.com/SaoNetwork/sao/x/order/types"
	"pgregory.net/rapid"
)

// ---- C09: data-model authorization (fork + authorised twin) ----

type c09World struct {
	victim   int // DID index of the model owner
	rw, ro   int // DID indexes of the grantees
	stranger []int
	gateway  int // victim's gateway (node account)
	attNode  int // attacker's own node account
	dataId   string
}

// modelView is everything C09 protects about one data id.
type modelView struct {
	Exists bool
	Meta   modeltypes.Metadata
	Alias  []string
	Expiry []uint64
}

func viewOf(sn *chain.Snapshot, dataId string) modelView {
	v := modelView{}
	m, ok := sn.Metas[dataId]
	v.Exists = ok
	v.Meta = m
	for _, k := range chain.SortedStr(sn.Models) {
		if sn.Models[k].Data == dataId {
			v.Alias = append(v.Alias, k)
		}
	}
	for _, h := range chain.SortedU64(sn.ExpData) {
		for _, d := range sn.ExpData[h] {
			if d == dataId {
				v.Expiry = append(v.Expiry, h)
			}
		}
	}
	return v
}

func diffView(a, b modelView) string {
	if reflect.DeepEqual(a, b) {
		return ""
	}
	if a.Exists != b.Exists {
		return fmt.Sprintf("existence %v -> %v", a.Exists, b.Exists)
	}
	out := ""
	av, bv := reflect.ValueOf(a.Meta), reflect.ValueOf(b.Meta)
	for i := 0; i < av.NumField(); i++ {
		if !reflect.DeepEqual(av.Field(i).Interface(), bv.Field(i).Interface()) {
			out += fmt.Sprintf(" %s: %v -> %v;", av.Type().Field(i).Name, av.Field(i).Interface(), bv.Field(i).Interface())
		}
	}
	if !reflect.DeepEqual(a.Alias, b.Alias) {
		out += fmt.Sprintf(" alias: %v -> %v;", a.Alias, b.Alias)
	}
	if !reflect.DeepEqual(a.Expiry, b.Expiry) {
		out += fmt.Sprintf(" scheduled end of life: %v -> %v;", a.Expiry, b.Expiry)
	}
	return out
}

// C09Oracle runs the twin before, and compares the protected view after, every action marked adversarial.
type C09Oracle struct {
	NopOracle
	w       *c09World
	before  modelView
	twinOK  bool
	Counted map[string]int
	Twins   int
	// access lists and owner after setup: no later request in a case is an owner-signed permission
	// change, so they must stay as they are (content updates by the read-write grantee included)
	perm0        *modeltypes.Metadata
	GranteeStore int
}

func (o *C09Oracle) permsUnchanged(s *Sim, sn *chain.Snapshot, where string) {
	if o.perm0 == nil {
		return
	}
	m, ok := sn.Metas[o.perm0.DataId]
	if !ok {
		return
	}
	norm := func(x []string) []string {
		if len(x) == 0 {
			return nil
		}
		return x
	}
	if m.Owner != o.perm0.Owner || !reflect.DeepEqual(norm(m.ReadonlyDids), norm(o.perm0.ReadonlyDids)) || !reflect.DeepEqual(norm(m.ReadwriteDids), norm(o.perm0.ReadwriteDids)) {
		s.FailT("permissions-changed-without-owner-request", "", map[string]string{"where": where},
			"%s: access lists of %s are not what the owner last asked for (owner-signed request -> chain): owner %s -> %s, read-only %v -> %v, read-write %v -> %v", where, tail(o.perm0.DataId),
			tail(o.perm0.Owner), tail(m.Owner), tails(o.perm0.ReadonlyDids), tails(m.ReadonlyDids), tails(o.perm0.ReadwriteDids), tails(m.ReadwriteDids))
	}
}

func (o *C09Oracle) Name() string { return "C09" }

func (o *C09Oracle) BeforeAction(s *Sim, a *Action) {
	if a.Extra["adv"] == "" {
		return
	}
	dataId := a.Extra["victimData"]
	o.before = viewOf(s.Last, dataId)
	// authorised twin on a fork: the same request, signed by the owner through an honest relayer
	tw := *a
	tw.Owner, tw.Signer = atoi(a.Extra["victimOwner"]), -1
	tw.KidOver, tw.Tamper, tw.OwnerOver = "", "", ""
	tw.Extra = map[string]string{}
	if a.Tamper == "dataId" {
		tw.DataId = a.Extra["dataId"] // the request the forger wants executed
	}
	f := s.C.Fork()
	res := s.Exec(f, &tw)
	o.twinOK = false
	if res.OK {
		after := viewOf(f.Snap(), dataId)
		o.twinOK = diffView(o.before, after) != ""
	}
	if o.twinOK {
		o.Twins++
		a.Extra["twin"] = "changed-model"
	} else {
		a.Extra["twin"] = "no-effect:" + short(res.ErrString())
	}
}

func atoi(s string) int {
	n := 0
	neg := false
	for i, c := range s {
		if i == 0 && c == '-' {
			neg = true
			continue
		}
		n = n*10 + int(c-'0')
	}
	if neg {
		return -n
	}
	return n
}

func (o *C09Oracle) AfterAction(s *Sim, a *Action, pre, post *chain.Snapshot, res *chain.TxResult) {
	if a.Kind == "permission" && res.OK && a.Extra["adv"] == "" {
		// an owner-signed permission request: from now on the lists are exactly what the owner asked for
		// (taken from the request, not from the chain; recorded here so that replays have it too)
		if m, ok := pre.Metas[a.DataId]; ok && a.Owner >= 0 && s.didStr(a.Owner) == m.Owner {
			mm := m
			mm.ReadonlyDids, mm.ReadwriteDids = s.didList(a.RO), s.didList(a.RW)
			o.perm0 = &mm
		}
	}
	o.permsUnchanged(s, post, a.Kind)
	if a.Extra["adv"] == "" {
		return
	}
	dataId := a.Extra["victimData"]
	if !o.before.Exists {
		return // nothing to protect: the data id names no model (anyone may create one)
	}
	after := viewOf(post, dataId)
	cls := a.Kind + "/" + a.Extra["signerClass"] + "/" + a.Extra["craft"]
	if o.twinOK {
		if o.Counted == nil {
			o.Counted = map[string]int{}
		}
		o.Counted[cls]++
		s.Label("c09:" + cls)
	}
	if d := diffView(o.before, after); d != "" {
		s.FailT("unauthorised-request-changed-model", "", map[string]string{"request": a.Kind, "signer": a.Extra["signerClass"], "craft": a.Extra["craft"]},
			"%s by %s (crafting %s, tx result ok=%v %s) changed data model %s:%s", a.Kind, a.Extra["signerClass"], a.Extra["craft"], res.OK, short(res.ErrString()), tail(dataId), d)
	}
	a.Extra["watch"] = "1"
}

// Boundary: the model must also stay untouched afterwards (an in-flight marker rolled back later still counts).
func (o *C09Oracle) Boundary(s *Sim, sn *chain.Snapshot) {
	o.permsUnchanged(s, sn, "block boundary")
	if o.w == nil || !o.watching(s) {
		return
	}
	after := viewOf(sn, o.w.dataId)
	if o.before.Exists && !after.Exists && len(o.before.Expiry) > 0 {
		// the one change nobody has to sign: the scheduled end of the paid lifetime - at that height, not before
		end := o.before.Expiry[0]
		for _, e := range o.before.Expiry {
			if e < end {
				end = e
			}
		}
		if uint64(sn.Height) >= end {
			o.before = after
			s.Label("c09-model-reached-its-scheduled-end")
			return
		}
		s.FailT("model-removed-before-its-scheduled-end", "", nil, "h=%d data model %s is gone, its scheduled end of life is %d and nobody authorised asked for its removal", sn.Height, tail(o.w.dataId), end)
	}
	if d := diffView(o.before, after); d != "" {
		s.FailT("unauthorised-request-changed-model-later", "", nil, "h=%d data model %s changed after the unauthorised request without any authorised one:%s", sn.Height, tail(o.w.dataId), d)
	}
}

func (o *C09Oracle) watching(s *Sim) bool {
	// only while the most recent message was adversarial (legitimate requests re-baseline the view)
	for i := len(s.Hist) - 1; i >= 0; i-- {
		a := s.Hist[i]
		if a.Kind == "advance" {
			continue
		}
		return a.Extra["watch"] == "1"
	}
	return false
}

func setupC09(t *rapid.T, s *Sim, sidVictim bool) *c09World {
	cfg := DefaultLifeCfg()
	cfg.Providers = []int{2, 3, 4, 5, 6}
	cfg.Owners = []int{8, 9, 10, 11}
	cfg.Sponsors = nil
	s.SetupStorage(cfg, 1_000_000_000)
	w := &c09World{victim: 8, rw: 9, ro: 10, gateway: 2, attNode: 6, dataId: DataIdN(1)}
	w.stranger = []int{11}
	// the stranger also owns a sid DID
	b := NewAction("bind_sid", 11)
	b.Ts = 4_000_000_000
	if s.Do(b).OK {
		w.stranger = append(w.stranger, len(s.Dids)-1)
	}
	if sidVictim {
		b := NewAction("bind_sid", 7)
		b.Ts = 4_000_000_001
		if !s.Do(b).OK {
			infra("victim sid binding failed: %s", b.Err)
		}
		w.victim = len(s.Dids) - 1
		f := NewAction("bank_send", 0)
		f.Target, f.Amount = 7, 1_000_000_000
		s.Do(f)
	}
	// the victim's model: stored, completed, optionally updated once
	st := NewAction("store", w.gateway)
	st.Owner, st.PropProv, st.DataId, st.Commit, st.Alias, st.Cid = w.victim, w.gateway, w.dataId, w.dataId, "victim", CidA
	st.Op, st.Size, st.Replica, st.Duration, st.Timeout = 1, 1_000_000, 2, 6000, 10
	if !s.Do(st).OK {
		infra("victim store failed: %s", st.Err)
	}
	for _, sh := range sortedShards(s.Last) {
		c := NewAction("complete", s.acctOf(sh.Sp))
		c.Order, c.Cid, c.Size = st.Order, sh.Cid, sh.Size_
		s.Do(c)
	}
	if rapid.Bool().Draw(t, "secondVersion") {
		up := NewAction("store", w.gateway)
		up.Owner, up.PropProv, up.DataId, up.Commit, up.Alias, up.Cid = w.victim, w.gateway, w.dataId, w.dataId+"|"+CommitN(1), "victim", CidB
		up.Op, up.Size, up.Replica, up.Duration, up.Timeout = 1, 500_000, 1, 6000, 10
		if s.Do(up).OK {
			for _, sh := range sortedShards(s.Last) {
				if sh.Status == 0 {
					c := NewAction("complete", s.acctOf(sh.Sp))
					c.Order, c.Cid, c.Size = up.Order, sh.Cid, sh.Size_
					s.Do(c)
				}
			}
		}
	}
	p := NewAction("permission", w.gateway)
	p.Owner, p.DataId, p.RW, p.RO = w.victim, w.dataId, []int{w.rw}, []int{w.ro}
	if !s.Do(p).OK {
		infra("victim permission update failed: %s", p.Err)
	}
	return w
}

func genAdversarial(t *rapid.T, s *Sim, w *c09World, o *C09Oracle, n int) *Action {
	meta := s.Last.Metas[w.dataId]
	last := latestCommit(meta)
	req := rapid.SampledFrom([]string{"store", "store", "renew", "terminate", "permission"}).Draw(t, "request")
	relayer := rapid.SampledFrom([]int{w.attNode, w.gateway, 3}).Draw(t, "relayer")
	a := NewAction(req, relayer)
	a.Extra = map[string]string{"adv": "1", "victimData": w.dataId, "victimOwner": fmt.Sprint(w.victim)}
	// who signs: anybody who, by the owner's latest grant, may not make this request
	inList := func(list []string, i int) bool {
		for _, d := range list {
			if d == s.Dids[i].Did {
				return true
			}
		}
		return false
	}
	var rwNow, roNow []string
	if o.perm0 != nil {
		rwNow, roNow = o.perm0.ReadwriteDids, o.perm0.ReadonlyDids
	}
	pool := append([]int{w.ro, w.rw}, w.stranger...)
	var cands []int
	for _, i := range pool {
		if (req == "store" || req == "terminate") && inList(rwNow, i) {
			continue // a read-write grantee may update and terminate
		}
		cands = append(cands, i)
	}
	signer := cands[rapid.IntRange(0, len(cands)-1).Draw(t, "signer")]
	cls := "stranger-key"
	switch {
	case inList(rwNow, signer):
		cls = "readwrite"
	case inList(roNow, signer):
		cls = "readonly"
	case s.Dids[signer].Kind == "sid":
		cls = "stranger-sid"
	}
	a.Extra["signerClass"] = cls
	a.Owner, a.Signer = signer, signer
	// request fields
	a.DataId = w.dataId
	switch req {
	case "store":
		a.PropProv = relayer
		a.Alias, a.Cid = meta.Alias, CidC
		a.Op = uint32(rapid.IntRange(1, 2).Draw(t, "op"))
		a.Size, a.Replica, a.Duration, a.Timeout = 1000, 1, 3600, 5
		nc := CommitN(100 + n)
		a.Commit = rapid.SampledFrom([]string{
			last + "|" + nc, w.dataId + "|" + nc, "|" + w.dataId, w.dataId, last + "|" + w.dataId, "|" + nc,
			"x" + w.dataId + "|" + nc, last + "|" + nc + w.dataId, w.dataId + last + "|" + nc,
		}).Draw(t, "commitExpr")
	case "renew":
		a.Data = []string{w.dataId}
		a.Duration, a.Timeout = 4000, 10
	case "permission":
		a.RW = []int{signer}
	}
	// crafting
	crafts := []string{"plain", "owner-field-victim", "victim-kid-own-key", "tamper-after-owner-signature"}
	if s.Dids[w.victim].Kind == "sid" && len(w.stranger) > 1 {
		crafts = append(crafts, "sid-version-forgery", "sid-version-forgery")
	}
	craft := rapid.SampledFrom(crafts).Draw(t, "craft")
	a.Extra["craft"] = craft
	switch craft {
	case "owner-field-victim":
		a.OwnerOver = s.Dids[w.victim].Did // signed under the attacker's own kid
	case "victim-kid-own-key":
		a.OwnerOver = s.Dids[w.victim].Did
		a.KidOver = s.Dids[w.victim].Kid
	case "sid-version-forgery":
		att := s.Dids[w.stranger[1]]
		a.Signer = w.stranger[1]
		a.OwnerOver = s.Dids[w.victim].Did
		a.KidOver = chain.SidKid(s.Dids[w.victim].Root, att.Version, "signing")
	case "tamper-after-owner-signature":
		// a captured valid owner signature replayed over a modified payload
		a.Owner, a.Signer = w.victim, w.victim
		switch req {
		case "store":
			a.Tamper = rapid.SampledFrom([]string{"commit", "cid", "duration"}).Draw(t, "tamper")
			a.Commit = last + "|" + CommitN(100+n)
		case "renew":
			a.Tamper = "duration"
		case "terminate":
			a.Tamper = "dataId"
			a.DataId = DataIdN(2) // signed for another (non-existent) model, then pointed at the victim's
			a.Extra["dataId"] = w.dataId
		case "permission":
			a.Tamper = "rw"
			a.Extra["did"] = s.Dids[w.stranger[0]].Did
			a.RW = nil
		}
	}
	return a
}

// granteeUpdate: an authorised content update signed by the read-write grantee whose proposal also
// carries access lists (which only matter when a model is created). Its shards are completed at once,
// so nothing stays in flight.
func granteeUpdate(t *rapid.T, s *Sim, w *c09World, o *C09Oracle, n int) {
	meta, ok := s.Last.Metas[w.dataId]
	if !ok || meta.Status != modeltypes.MetaComplete {
		return
	}
	grantee := -1
	if o.perm0 != nil {
		for _, i := range []int{w.rw, w.ro, w.stranger[0]} {
			for _, d := range o.perm0.ReadwriteDids {
				if d == s.Dids[i].Did && grantee < 0 {
					grantee = i
				}
			}
		}
	}
	if grantee < 0 {
		return // nobody holds read-write access at the moment
	}
	a := NewAction("store", w.gateway)
	a.Owner, a.Signer, a.PropProv = grantee, grantee, w.gateway
	a.DataId, a.Alias, a.Cid = w.dataId, meta.Alias, CidC
	a.Op = uint32(rapid.IntRange(1, 2).Draw(t, "op"))
	a.Size, a.Replica, a.Duration, a.Timeout = 1000, 1, 3600, 5
	a.Commit = latestCommit(meta) + "|" + CommitN(200+n)
	pick := func(label string) []int {
		return rapid.SliceOfNDistinct(rapid.SampledFrom([]int{w.stranger[0], w.ro, w.rw}), 0, 2, func(i int) int { return i }).Draw(t, label)
	}
	a.RO, a.RW = pick("proposalReadonly"), pick("proposalReadwrite")
	a.Extra = map[string]string{"granteeUpdate": "1"}
	if !s.Do(a).OK {
		return
	}
	o.GranteeStore++
	s.Label("c09-grantee-content-update")
	if len(a.RO)+len(a.RW) > 0 {
		s.Label("c09-grantee-update-carries-access-lists")
	}
	for _, sh := range sortedShards(s.Last) {
		if sh.Status == ordertypes.ShardWaiting && sh.OrderId == a.Order {
			c := NewAction("complete", s.acctOf(sh.Sp))
			c.Order, c.Cid, c.Size = a.Order, sh.Cid, sh.Size_
			s.Do(c)
		}
	}
}

func c09Property(t *rapid.T) {
	o := &C09Oracle{}
	s := NewSim(t, "C09", o)
	aborted := RunCase(func() {
		w := setupC09(t, s, rapid.Bool().Draw(t, "sidVictim"))
		o.w = w
		endOfTerm := false
		n := rapid.IntRange(1, 10).Draw(t, "attempts")
		if rapid.IntRange(0, 19).Draw(t, "endOfTerm") == 0 {
			// the attempts are made around the very last blocks of the model's paid lifetime
			if v := viewOf(s.Last, w.dataId); v.Exists && len(v.Expiry) > 0 && int64(v.Expiry[0]) > s.C.Height+3 {
				adv := NewAction("advance", 0)
				adv.Blocks = int64(v.Expiry[0]) - s.C.Height - int64(rapid.IntRange(1, 3).Draw(t, "before"))
				s.Do(adv)
				s.Label("c09-at-the-end-of-the-paid-lifetime")
				endOfTerm = true
			}
		}
		for i := 0; i < n; i++ {
			if _, ok := s.Last.Metas[w.dataId]; !ok {
				break
			}
			if rapid.IntRange(0, 4).Draw(t, "granteeUpdate") == 0 {
				granteeUpdate(t, s, w, o, i)
				continue
			}
			if rapid.IntRange(0, 5).Draw(t, "ownerPermission") == 0 {
				// the owner changes the access lists (grants, demotions, revocations: either list may be empty)
				p := NewAction("permission", w.gateway)
				p.Owner, p.DataId = w.victim, w.dataId
				pick := func(label string) []int {
					return rapid.SliceOfNDistinct(rapid.SampledFrom([]int{w.rw, w.ro, w.stranger[0]}), 0, 2, func(i int) int { return i }).Draw(t, label)
				}
				p.RW, p.RO = pick("ownerReadwrite"), pick("ownerReadonly")
				if s.Do(p).OK {
					s.Label("c09-owner-changed-access-lists")
				}
				continue
			}
			s.Do(genAdversarial(t, s, w, o, i))
			if endOfTerm {
				adv := NewAction("advance", 0)
				adv.Blocks = 1
				s.Do(adv)
				continue
			}
			if rapid.IntRange(0, 2).Draw(t, "adv") == 0 {
				adv := NewAction("advance", 0)
				adv.Blocks = int64(rapid.IntRange(1, 12).Draw(t, "blocks"))
				s.Do(adv)
			}
		}
	})
	if aborted != "" {
		stats.Abort(aborted)
		return
	}
	stats.Record(s.HistHash(), o.Twins > 0, s.Labels, s.Excluded, func() any { return s.Summary() })
}

func TestC09(t *testing.T) { runRapid(t, "TestC09", c09Property) }

func init() {
	replayers["TestC09"] = func(t TB, v *Violation) {
		o := &C09Oracle{w: &c09World{dataId: DataIdN(1)}}
		s := NewSim(t, "C09", o)
		replayHistory(s, v.History)
	}
}
