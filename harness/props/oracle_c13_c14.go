package props

import (
	"fmt"

	"saoverif/chain"

	modeltypes "github.com/SaoNetwork/sao/x/model/types"
	ordertypes "github.com/SaoNetwork/sao/x/order/types"
	sdk "github.com/cosmos/cosmos-sdk/types"
	"google.golang.org/grpc/codes"
	"google.golang.org/grpc/status"
)

// ---------------- C13: referential integrity ----------------

type C13Oracle struct {
	NopOracle
	MaxOrders, MaxShards int
	Observations         map[string]int
}

func (o *C13Oracle) Name() string { return "C13" }

func (o *C13Oracle) Invariant(s *Sim, c *chain.Chain, sn *chain.Snapshot) {
	if len(sn.Orders) > o.MaxOrders {
		o.MaxOrders = len(sn.Orders)
	}
	if len(sn.Shards) > o.MaxShards {
		o.MaxShards = len(sn.Shards)
	}
	// R1: every shard an order lists exists
	for _, ord := range sortedOrders(sn) {
		for _, id := range ord.Shards {
			if _, ok := sn.Shards[id]; !ok {
				s.FailT("R1-order-lists-missing-shard", "", map[string]string{"orderOp": fmt.Sprint(ord.Operation)},
					"h=%d order %d (op %d, status %d) lists shard %d which does not exist", sn.Height, ord.Id, ord.Operation, ord.Status, id)
			}
		}
	}
	// R2: every existing shard is listed by the existing order it names
	for _, sh := range sortedShards(sn) {
		ord, ok := sn.Orders[sh.OrderId]
		if !ok {
			s.FailT("R2-shard-names-missing-order", "", map[string]string{"shardStatus": fmt.Sprint(sh.Status)},
				"h=%d shard %d (status %d, sp %s) names order %d which does not exist", sn.Height, sh.Id, sh.Status, tail(sh.Sp), sh.OrderId)
		}
		listed := false
		for _, id := range ord.Shards {
			if id == sh.Id {
				listed = true
			}
		}
		if !listed {
			s.FailT("R2-shard-not-listed", "", map[string]string{"shardStatus": fmt.Sprint(sh.Status)},
				"h=%d shard %d (status %d) names order %d whose list %v does not contain it", sn.Height, sh.Id, sh.Status, sh.OrderId, ord.Shards)
		}
	}
	// R3: every completed shard has a release scheduled at the end of its current paid period
	for _, sh := range sortedShards(sn) {
		if sh.Status != ordertypes.ShardCompleted {
			continue
		}
		end := sh.CreatedAt + sh.Duration
		found := false
		for _, id := range sn.ExpShards[end] {
			if id == sh.Id {
				found = true
			}
		}
		if !found {
			s.FailT("R3-completed-shard-unscheduled", "", nil,
				"h=%d completed shard %d (order %d) ends its paid period at %d but ExpiredShard[%d]=%v", sn.Height, sh.Id, sh.OrderId, end, end, sn.ExpShards[end])
		}
		if int64(end) <= sn.Height {
			s.FailT("R3-completed-shard-past-end", "", nil,
				"h=%d completed shard %d still exists after the end %d of its paid period", sn.Height, sh.Id, end)
		}
	}
	// R4: every model has exactly one alias entry pointing back at it, and every alias points at a model
	count := map[string]int{}
	for _, key := range chain.SortedStr(sn.Models) {
		m := sn.Models[key]
		meta, ok := sn.Metas[m.Data]
		if !ok {
			s.FailT("R4-alias-dangling", "", nil, "h=%d alias %q points at data id %s which has no metadata", sn.Height, key, m.Data)
		}
		want := fmt.Sprintf("%s-%s-%s", meta.Owner, meta.Alias, meta.GroupId)
		if want != key {
			s.FailT("R4-alias-key-mismatch", "", nil, "h=%d alias %q points at %s whose own key is %q", sn.Height, key, m.Data, want)
		}
		count[m.Data]++
	}
	for _, id := range chain.SortedStr(sn.Metas) {
		if count[id] != 1 {
			s.FailT("R4-model-alias-count", "", nil, "h=%d data model %s has %d alias entries", sn.Height, id, count[id])
		}
	}
	// R5 (symptom only): the public Metadata query must not fail with NotFound for a live model
	ctx := sdk.WrapSDKContext(c.Ctx())
	for _, id := range chain.SortedStr(sn.Metas) {
		_, err := s.W.App.ModelKeeper.Metadata(ctx, &modeltypes.QueryGetMetadataRequest{DataId: id})
		if err != nil {
			if st, ok := status.FromError(err); ok && st.Code() == codes.NotFound {
				m := sn.Metas[id]
				cause := "other"
				if _, ok := sn.Orders[m.OrderId]; !ok {
					cause = "latest-order-gone"
					for _, oid := range m.Orders {
						if oid != m.OrderId {
							if _, ok := sn.Orders[oid]; ok {
								cause = "latest-order-ended-before-older-version"
							}
						}
					}
				}
				s.Tolerate("R5-metadata-query-dangling", "", map[string]string{"cause": cause}, "h=%d Metadata query for live model %s: %v (OrderId=%d, Orders=%v)", sn.Height, id, err, m.OrderId, m.Orders)
			}
		}
	}
	for _, ord := range sortedOrders(sn) {
		if _, err := s.W.App.OrderKeeper.Order(ctx, &ordertypes.QueryGetOrderRequest{Id: ord.Id}); err != nil {
			s.FailT("R5-order-query", "", nil, "h=%d Order query for live order %d: %v", sn.Height, ord.Id, err)
		}
	}
	// observations (not violations): Metadata.Orders entries naming removed orders
	for _, m := range sn.Metas {
		for _, id := range m.Orders {
			if _, ok := sn.Orders[id]; !ok {
				if o.Observations == nil {
					o.Observations = map[string]int{}
				}
				o.Observations["metadata.Orders names removed order"]++
			}
		}
	}
}

// ---------------- C14: aggregate accounting ----------------

type C14Oracle struct {
	NopOracle
	MaxHolding int // max number of providers holding >=1 shard at a boundary
}

func (o *C14Oracle) Name() string { return "C14" }

func (o *C14Oracle) Invariant(s *Sim, c *chain.Chain, sn *chain.Snapshot) {
	type agg struct {
		size   uint64
		income sdk.Dec
		pledge sdk.Int
		n      int
	}
	per := map[string]*agg{}
	get := func(sp string) *agg {
		if per[sp] == nil {
			per[sp] = &agg{income: sdk.ZeroDec(), pledge: sdk.ZeroInt()}
		}
		return per[sp]
	}
	for _, sh := range sortedShards(sn) {
		if sh.Status != ordertypes.ShardCompleted {
			continue
		}
		a := get(sh.Sp)
		a.n++
		a.size += sh.Size_
		price := sdk.NewDecWithPrec(1, 6)
		if ord, ok := sn.Orders[sh.OrderId]; ok {
			price = ord.UnitPrice.Amount
		}
		a.income = a.income.Add(price.MulInt64(int64(sh.Size_)))
		if !sh.Pledge.Amount.IsNil() {
			a.pledge = a.pledge.Add(sh.Pledge.Amount)
		}
	}
	holding := 0
	sps := map[string]bool{}
	for sp := range per {
		sps[sp] = true
	}
	for sp := range sn.Pledges {
		sps[sp] = true
	}
	for sp := range sn.Workers {
		sps[sp] = true
	}
	for _, sp := range chain.SortedStr(sps) {
		a := get(sp)
		if a.n > 0 {
			holding++
		}
		pl, hasPl := sn.Pledges[sp]
		used, shardPledged := int64(0), sdk.ZeroInt()
		if hasPl {
			used = pl.UsedStorage
			if !pl.TotalShardPledged.Amount.IsNil() {
				shardPledged = pl.TotalShardPledged.Amount
			}
		}
		if used != int64(a.size) {
			s.FailT("used-storage", "", nil, "h=%d provider %s: Pledge.UsedStorage=%d but its %d completed shards total %d bytes", sn.Height, tail(sp), used, a.n, a.size)
		}
		if !shardPledged.Equal(a.pledge) {
			s.FailT("shard-pledged", "", nil, "h=%d provider %s: Pledge.TotalShardPledged=%s but collateral of its %d completed shards sums to %s", sn.Height, tail(sp), shardPledged, a.n, a.pledge)
		}
		wk, hasWk := sn.Workers[sp]
		wst, winc := uint64(0), sdk.ZeroDec()
		if hasWk {
			wst = wk.Storage
			if !wk.IncomePerSecond.Amount.IsNil() {
				winc = wk.IncomePerSecond.Amount
			}
		}
		if wst != a.size {
			s.FailT("worker-storage", "", nil, "h=%d provider %s: Worker.Storage=%d but completed shards total %d bytes", sn.Height, tail(sp), wst, a.size)
		}
		if !winc.Equal(a.income) {
			s.FailT("worker-income-rate", "", nil, "h=%d provider %s: Worker.IncomePerSecond=%s but sum(unit price x size)=%s", sn.Height, tail(sp), winc, a.income)
		}
	}
	if holding > o.MaxHolding {
		o.MaxHolding = holding
	}
	if sn.PoolFound {
		ts, tp := int64(0), sdk.ZeroInt()
		for _, pl := range sn.Pledges {
			ts += pl.TotalStorage
			if !pl.TotalStoragePledged.Amount.IsNil() {
				tp = tp.Add(pl.TotalStoragePledged.Amount)
			}
		}
		if sn.Pool.TotalStorage != ts {
			s.FailT("pool-total-storage", "", nil, "h=%d Pool.TotalStorage=%d but sum over providers=%d", sn.Height, sn.Pool.TotalStorage, ts)
		}
		if !sn.Pool.TotalPledged.Amount.Equal(tp) {
			s.FailT("pool-total-pledged", "", nil, "h=%d Pool.TotalPledged=%s but sum of providers' capacity pledges=%s", sn.Height, sn.Pool.TotalPledged.Amount, tp)
		}
	}
}
