package props

import (
	"fmt"
	"os"
	"time"
)

var (
	lastViolation   *Violation
	minimizing      bool
	minimizeBudget  = 90 * time.Second
)

// tryHistory re-executes hist under test's oracles and returns the violation it produces (nil if none).
func tryHistory(test string, base *Violation, hist []*Action) (out *Violation) {
	fn := replayers[test]
	if fn == nil {
		return nil
	}
	lastViolation = nil
	defer func() {
		if r := recover(); r != nil {
			if _, ok := r.(replayFailure); ok {
				out = lastViolation
				return
			}
			// a harness panic on a mutilated history: treat as "does not reproduce"
			out = nil
		}
	}()
	v := *base
	v.History = hist
	fn(quietT{}, &v)
	return nil
}

type quietT struct{}

func (quietT) Fatalf(format string, args ...any) { panic(replayFailure{fmt.Sprintf(format, args...)}) }
func (quietT) Logf(string, ...any)               {}

func sameSignature(a, b *Violation) bool {
	if a == nil || b == nil || a.Rule != b.Rule || a.Site != b.Site {
		return false
	}
	for k, v := range a.Trigger {
		if b.Trigger[k] != v {
			return false
		}
	}
	return true
}

// minimizeViolation shrinks the recorded history by delta debugging on the action
// list (rapid's own shrinking works on the random draws and is slow for histories
// that cross thousands of blocks). The result replaces the violation file.
func minimizeViolation() {
	bz, err := os.ReadFile(violationPath())
	if err != nil {
		return
	}
	var v Violation
	if jsonUnmarshal(bz, &v) != nil || replayers[v.Test] == nil || v.Rule == "hang" {
		return
	}
	minimizing = true
	defer func() { minimizing = false }()
	deadline := time.Now().Add(minimizeBudget)
	cur := v.History
	base := tryHistory(v.Test, &v, cur)
	if !sameSignature(&v, base) {
		return // not reproducible from the recorded actions alone: keep what rapid gave us
	}
	best := base
	n := 2
	for len(cur) >= 2 && time.Now().Before(deadline) {
		chunk := (len(cur) + n - 1) / n
		reduced := false
		for start := 0; start < len(cur) && time.Now().Before(deadline); start += chunk {
			end := start + chunk
			if end > len(cur) {
				end = len(cur)
			}
			cand := append(append([]*Action{}, cur[:start]...), cur[end:]...)
			if len(cand) == 0 {
				continue
			}
			if got := tryHistory(v.Test, &v, cand); sameSignature(&v, got) {
				cur = got.History
				best = got
				if n > 2 {
					n--
				}
				reduced = true
				break
			}
		}
		if !reduced {
			if chunk == 1 {
				break
			}
			n *= 2
			if n > len(cur) {
				n = len(cur)
			}
		}
	}
	// merge consecutive advances and retry once
	best.Extra = map[string]any{"minimized_from": len(v.History), "minimized_to": len(best.History)}
	writeViolation(best)
}
