package props

import (
	"fmt"

	"saoverif/chain"

	ordertypes "github.com/SaoNetwork/sao/x/order/types"
	sdk "github.com/cosmos/cosmos-sdk/types"
)

// C07Oracle: provider collateral leaves escrow only back to the provider whose record
// justified it, and a shard returns exactly what was taken for it less recorded debt.
type C07Oracle struct {
	NopOracle
	nominal  map[uint64]sdk.Int // collateral taken for a shard (coins + debt recorded at that time), as observed when taken
	paidIn   map[string]sdk.Int // capacity pledge paid in, per provider
	returned map[string]sdk.Int
	Ended    int
}

func NewC07() *C07Oracle {
	return &C07Oracle{nominal: map[uint64]sdk.Int{}, paidIn: map[string]sdk.Int{}, returned: map[string]sdk.Int{}}
}

func (o *C07Oracle) Name() string { return "C07" }

func debtOf(sn *chain.Snapshot, sp string) sdk.Int {
	if d, ok := sn.Debts[sp]; ok && !d.Debt.Amount.IsNil() {
		return d.Debt.Amount
	}
	return sdk.ZeroInt()
}

func addTo(m map[string]sdk.Int, k string, v sdk.Int) {
	if cur, ok := m[k]; ok {
		m[k] = cur.Add(v)
	} else {
		m[k] = v
	}
}

// flows computes, per provider, collateral newly taken (N) and collateral of ended shards (R) between pre and post.
func (o *C07Oracle) flows(s *Sim, pre, post *chain.Snapshot, where string, record bool) (N, R map[string]sdk.Int, ended []uint64) {
	N, R = map[string]sdk.Int{}, map[string]sdk.Int{}
	for _, id := range chain.SortedU64(post.Shards) {
		sh := post.Shards[id]
		if sh.Status != ordertypes.ShardCompleted {
			continue
		}
		p, had := pre.Shards[id]
		if !had || p.Status != ordertypes.ShardCompleted {
			// collateral taken at completion
			addTo(N, sh.Sp, intOr0(sh.Pledge.Amount))
			if record {
				o.nominal[id] = intOr0(sh.Pledge.Amount)
			}
			continue
		}
		// top-up at renewal
		inc := intOr0(sh.Pledge.Amount).Sub(intOr0(p.Pledge.Amount))
		if inc.IsPositive() {
			addTo(N, sh.Sp, inc)
			if record {
				o.nominal[id] = o.nominal[id].Add(inc)
			}
		} else if inc.IsNegative() {
			s.FailT("shard-collateral-record-shrank", "", map[string]string{"where": where}, "%s: Shard %d Pledge went from %s to %s while stored", where, id, p.Pledge, sh.Pledge)
		}
	}
	for _, id := range chain.SortedU64(pre.Shards) {
		p := pre.Shards[id]
		if p.Status != ordertypes.ShardCompleted {
			continue
		}
		if n, ok := post.Shards[id]; ok && n.Status == ordertypes.ShardCompleted {
			continue
		}
		nom, tracked := o.nominal[id]
		if !tracked {
			nom = intOr0(p.Pledge.Amount)
		}
		addTo(R, p.Sp, nom)
		ended = append(ended, id)
	}
	return
}

func (o *C07Oracle) checkStep(s *Sim, where string, pre, post *chain.Snapshot, exempt map[string]bool) {
	N, R, ended := o.flows(s, pre, post, where, true)
	trig := map[string]string{"where": where}
	sumExpected := sdk.ZeroInt()
	provs := map[string]bool{}
	for sp := range post.Pledges {
		provs[sp] = true
	}
	for sp := range pre.Pledges {
		provs[sp] = true
	}
	for sp := range N {
		provs[sp] = true
	}
	for sp := range R {
		provs[sp] = true
	}
	for _, sp := range chain.SortedStr(provs) {
		n, r := N[sp], R[sp]
		if n.IsNil() {
			n = sdk.ZeroInt()
		}
		if r.IsNil() {
			r = sdk.ZeroInt()
		}
		D := debtOf(post, sp).Sub(debtOf(pre, sp))
		want := r.Sub(n).Add(D)
		sumExpected = sumExpected.Add(n.Sub(r).Sub(D))
		if exempt[sp] {
			continue
		}
		bp, okp := pre.Bal[sp]
		bq, okq := post.Bal[sp]
		if !okp || !okq {
			continue
		}
		got := bq.Sub(bp)
		if !got.Equal(want) {
			rule := "collateral-flow-mismatch"
			if r.IsPositive() && n.IsZero() {
				rule = "release-not-equal-taken"
			}
			s.FailT(rule, "", trig, "%s: provider %s balance changed by %s, expected %s (= collateral of ended shards %s - newly taken %s + debt change %s); ended shards %v",
				where, tail(sp), got, want, r, n, D, ended)
		}
	}
	// the node escrow moved exactly by those flows: nothing leaked to anyone else
	if len(exempt) == 0 {
		dn := post.Bal["mod:node"].Sub(pre.Bal["mod:node"])
		if !dn.Equal(sumExpected) {
			s.FailT("node-escrow-leak", "", trig, "%s: node escrow changed by %s but collateral flows of all providers sum to %s", where, dn, sumExpected)
		}
	}
	if len(ended) > 0 {
		o.Ended += len(ended)
		s.Label("c07-shard-ended")
		for _, id := range ended {
			delete(o.nominal, id)
		}
	}
}

func (o *C07Oracle) AfterAction(s *Sim, a *Action, pre, post *chain.Snapshot, res *chain.TxResult) {
	if !res.OK {
		// a failed message moves nothing
		for _, acc := range s.W.Accounts {
			if !pre.Bal[acc.Bech].Equal(post.Bal[acc.Bech]) {
				s.FailT("failed-tx-moved-funds", "", map[string]string{"kind": a.Kind}, "failed %s changed the balance of %s", a.Kind, tail(acc.Bech))
			}
		}
		return
	}
	me := s.bech(a.Creator)
	switch a.Kind {
	case "add_vstorage":
		paid := pre.Bal[me].Sub(post.Bal[me])
		addTo(o.paidIn, me, paid)
		o.onlyMoved(s, a, pre, post, me)
	case "remove_vstorage":
		got := post.Bal[me].Sub(pre.Bal[me])
		addTo(o.returned, me, got)
		o.onlyMoved(s, a, pre, post, me)
		pp, pq := pre.Pledges[me], post.Pledges[me]
		removed := pp.TotalStorage - pq.TotalStorage
		if removed > pp.TotalStorage-pp.UsedStorage {
			s.FailT("withdrew-backing-capacity", "", nil, "RemoveVstorage by %s removed %d bytes but only %d were free (total %d, used %d)", tail(me), removed, pp.TotalStorage-pp.UsedStorage, pp.TotalStorage, pp.UsedStorage)
		}
		if o.returned[me].GT(o.paidIn[me]) {
			s.FailT("capacity-pledge-overpaid", "", nil, "provider %s got back %s of capacity pledge but paid in only %s", tail(me), o.returned[me], o.paidIn[me])
		}
		dn := post.Bal["mod:node"].Sub(pre.Bal["mod:node"])
		if !dn.Neg().Equal(got) {
			s.FailT("node-escrow-leak", "", map[string]string{"where": "remove_vstorage"}, "RemoveVstorage: node escrow changed by %s, provider received %s", dn, got)
		}
	case "claim":
		// only the claimant may gain; collateral of nobody moves
		o.onlyMoved(s, a, pre, post, me)
		o.checkStep(s, "claim", pre, post, map[string]bool{me: true})
	case "bank_send":
	case "store", "ready", "complete", "cancel", "terminate", "renew", "migrate", "permission", "node_reset", "node_create":
		// payers may be debited / refunded here; they are not providers in generated worlds
		o.checkStep(s, a.Kind, pre, post, nil)
	}
	o.bounds(s, post)
}

func (o *C07Oracle) onlyMoved(s *Sim, a *Action, pre, post *chain.Snapshot, who string) {
	for _, acc := range s.W.Accounts {
		if acc.Bech == who {
			continue
		}
		if !pre.Bal[acc.Bech].Equal(post.Bal[acc.Bech]) {
			s.FailT("third-party-balance-moved", "", map[string]string{"kind": a.Kind}, "%s by %s changed the balance of %s by %s", a.Kind, tail(who), tail(acc.Bech), post.Bal[acc.Bech].Sub(pre.Bal[acc.Bech]))
		}
	}
}

func (o *C07Oracle) bounds(s *Sim, sn *chain.Snapshot) {
	for _, sp := range chain.SortedStr(sn.Pledges) {
		pl := sn.Pledges[sp]
		if pl.UsedStorage < 0 || pl.UsedStorage > pl.TotalStorage || pl.TotalStorage < 0 {
			s.FailT("used-capacity-out-of-bounds", "", nil, "h=%d provider %s: UsedStorage=%d TotalStorage=%d", sn.Height, tail(sp), pl.UsedStorage, pl.TotalStorage)
		}
		// pledged capacity is what the capacity pledge pays for: one coin per 1,000,000 bytes
		if paid := intOr0(pl.TotalStoragePledged.Amount); paid.IsInt64() && pl.TotalStorage > paid.Int64()*1_000_000 {
			s.FailT("capacity-not-backed-by-pledge", "", nil, "h=%d provider %s: %d bytes of capacity are credited but the capacity pledge of %s pays for %d", sn.Height, tail(sp), pl.TotalStorage, pl.TotalStoragePledged, paid.Int64()*1_000_000)
		}
	}
}

func (o *C07Oracle) Step(s *Sim, step string, pre, post *chain.Snapshot) {
	if step == "sao.EndBlocker" {
		o.checkStep(s, "end-blocker", pre, post, nil)
		o.bounds(s, post)
	}
}

var _ = fmt.Sprint
