package props

import (
	"fmt"
	"strings"
	"reflect"
	"testing"

	"saoverif/chain"

	ordertypes "github.com/SaoNetwork/sao/x/order/types"
	"pgregory.net/rapid"
)

// ---- C10: actor authorization ----

// victimView is everything that belongs to parties other than the attacker's accounts.
type victimView struct {
	Orders, Shards, Metas, Models, Timeouts, ExpShards, ExpData any
	Nodes, Pledges, Workers, Debts                               map[string]any
	Bal                                                          map[string]string
}

func victimsOf(sn *chain.Snapshot, attackers map[string]bool) victimView {
	v := victimView{Orders: sn.Orders, Shards: sn.Shards, Metas: sn.Metas, Models: sn.Models, Timeouts: sn.Timeouts, ExpShards: sn.ExpShards, ExpData: sn.ExpData,
		Nodes: map[string]any{}, Pledges: map[string]any{}, Workers: map[string]any{}, Debts: map[string]any{}, Bal: map[string]string{}}
	for k, x := range sn.Nodes {
		if !attackers[k] {
			v.Nodes[k] = x
		}
	}
	for k, x := range sn.Pledges {
		if !attackers[k] {
			v.Pledges[k] = x
		}
	}
	for k, x := range sn.Workers {
		if !attackers[k] {
			v.Workers[k] = x
		}
	}
	for k, x := range sn.Debts {
		if !attackers[k] {
			v.Debts[k] = x
		}
	}
	for k, x := range sn.Bal {
		if !attackers[k] && k != "mod:node" {
			v.Bal[k] = x.String()
		}
	}
	return v
}

func diffVictims(a, b victimView) string {
	out := ""
	av, bv := reflect.ValueOf(a), reflect.ValueOf(b)
	for i := 0; i < av.NumField(); i++ {
		if !reflect.DeepEqual(av.Field(i).Interface(), bv.Field(i).Interface()) {
			out += " " + av.Type().Field(i).Name
		}
	}
	return out
}

type C10Oracle struct {
	NopOracle
	removed   map[string]bool // accounts dropped from a DID by an accepted key rotation (by address)
	attackers map[string]bool
	before    victimView
	twinOK    bool
	Twins     int
	Positive  int
}

func (o *C10Oracle) Name() string { return "C10" }

func (o *C10Oracle) BeforeAction(s *Sim, a *Action) {
	if a.Extra["adv"] == "" {
		return
	}
	o.before = victimsOf(s.Last, o.attackers)
	// the same message from the legitimate actor, on a fork
	tw := *a
	tw.Creator, tw.MsgProv = atoi(a.Extra["legitCreator"]), atoi(a.Extra["legitProv"])
	tw.Extra = map[string]string{}
	f := s.C.Fork()
	res := s.Exec(f, &tw)
	o.twinOK = res.OK && diffVictims(o.before, victimsOf(f.Snap(), o.attackers)) != ""
	if o.twinOK {
		o.Twins++
		a.Extra["twin"] = "effective"
	} else {
		a.Extra["twin"] = "no-effect:" + short(res.ErrString())
	}
}

func (o *C10Oracle) AfterAction(s *Sim, a *Action, pre, post *chain.Snapshot, res *chain.TxResult) {
	if a.Kind == "did_update" && res.OK {
		if o.removed == nil {
			o.removed = map[string]bool{}
		}
		for _, ref := range strings.Fields(a.Extra["remove"]) {
			if ref[0] == 'c' {
				o.removed[s.bech(atoi(ref[1:]))] = true
			}
		}
	}
	if (a.Kind == "bind_sid" || a.Kind == "did_bind") && res.OK && o.removed != nil {
		if a.Target >= 0 {
			delete(o.removed, s.bech(a.Target))
		} else {
			delete(o.removed, s.bech(a.Creator))
		}
	}
	if a.Kind == "store" && res.OK {
		o.payerClause(s, a, pre, post)
	}
	if a.Extra["adv"] == "" {
		return
	}
	cls := a.Kind + "/" + a.Extra["variant"]
	if o.twinOK {
		s.Label("c10:" + cls)
	}
	if d := diffVictims(o.before, victimsOf(post, o.attackers)); d != "" {
		s.FailT("third-party-acted-for-victim", "", map[string]string{"msg": a.Kind, "variant": a.Extra["variant"]},
			"%s sent by %s (variant %s, claimed provider %d, ok=%v %s) changed records of other parties:%s", a.Kind, tail(s.bech(a.Creator)), a.Extra["variant"], a.MsgProv, res.OK, short(res.ErrString()), d)
	}
}

// payerClause: who was debited by a successful Store, and was the submitter entitled to cause that.
func (o *C10Oracle) payerClause(s *Sim, a *Action, pre, post *chain.Snapshot) {
	ord, ok := post.Orders[a.Order]
	if !ok {
		return
	}
	creator := s.bech(a.Creator)
	var debited []string
	for _, acc := range s.W.Accounts {
		if post.Bal[acc.Bech].LT(pre.Bal[acc.Bech]) {
			debited = append(debited, acc.Bech)
		}
	}
	ownerPay := payAddrOf(pre, ord.Owner)
	sponsorPay := ""
	if ord.PaymentDid != "" {
		sponsorPay = payAddrOf(pre, ord.PaymentDid)
	}
	o.Positive++
	for _, d := range debited {
		trig := map[string]string{"msg": "store"}
		switch {
		case d == sponsorPay && sponsorPay != "":
			if creator != sponsorPay {
				s.FailT("sponsor-charged-by-someone-else", "", trig, "order %d charged sponsor %s but was submitted by %s", a.Order, tail(d), tail(creator))
			}
		case d == ownerPay:
			named := s.bech(a.PropProv)
			okSubmitter := creator == named
			if n, ok := pre.Nodes[named]; ok {
				for _, x := range n.TxAddresses {
					if x == creator {
						okSubmitter = true
					}
				}
			}
			for _, b := range pre.Did.DidList {
				if b.Did == ord.Owner && b.AccountId == chain.CosmosAccountId(s.W.Cfg.ChainID, creator) && !o.removed[creator] {
					okSubmitter = true
				}
			}
			if !okSubmitter {
				s.FailT("owner-charged-by-unnamed-submitter", "", trig, "order %d charged the owner's payment address %s; submitted by %s which is neither the named gateway %s, one of its registered addresses, nor bound to the owner", a.Order, tail(d), tail(creator), tail(named))
			}
		default:
			s.FailT("unrelated-account-charged", "", trig, "order %d debited %s which is neither the owner's nor the sponsor's payment address", a.Order, tail(d))
		}
	}
}

type c10World struct {
	gateway, attacker, attacker2 int
	providers                    []int
	owner, sidOwner, sponsor     int
	sidAcct                      int
	nextData                     int
	formerMember                 int // account that was bound to the sid owner and has been removed (0: none)
}

func setupC10(t *rapid.T, s *Sim) *c10World {
	cfg := DefaultLifeCfg()
	cfg.Providers = []int{2, 3, 4, 5}
	cfg.Owners = []int{8}
	cfg.Sponsors = []int{10}
	s.SetupStorage(cfg, 1_000_000_000)
	w := &c10World{gateway: 2, attacker: 6, attacker2: 11, providers: []int{3, 4, 5}, owner: 8, sponsor: 10, sidAcct: 9, nextData: 1}
	// gateway registers a hot key (account 7)
	r := NewAction("node_reset", 2)
	r.Status, r.TxAddrs = StatusFull, []int{7}
	s.Do(r)
	// a sid owner bound to account 9 (can submit its own orders: they stay Pending until Ready)
	b := NewAction("bind_sid", 9)
	b.Ts = 4_000_000_002
	if s.Do(b).OK {
		w.sidOwner = len(s.Dids) - 1
	} else {
		w.sidOwner = -1
	}
	// a former member: account 11 is bound to the sid owner too and then dropped by a key rotation
	if w.sidOwner >= 0 {
		b2 := NewAction("bind_sid", 9)
		b2.Owner, b2.Target, b2.Ts = w.sidOwner, 11, 4_000_000_003
		if s.Do(b2).OK {
			u := NewAction("did_update", 9)
			u.Owner, u.Ts = w.sidOwner, 4_000_000_004
			u.Extra = map[string]string{"gen": "1", "pastSeed": "seed-c10-1", "keep": "c9", "remove": "c11"}
			if s.Do(u).OK {
				w.formerMember = 11
			}
		}
	}
	// the attacker's own node, declaring victims' addresses as its hot keys
	s.Do(NewAction("node_create", w.attacker))
	ar := NewAction("node_reset", w.attacker)
	ar.Status = 3 // online + gateway: never selected as a storage provider itself
	ar.TxAddrs = rapid.SliceOfNDistinct(rapid.SampledFrom([]int{2, 3, 4, 5, 7, 8, 9, 10, 11}), 1, 6, func(i int) int { return i }).Draw(t, "declaredTxAddrs")
	s.Do(ar)
	v := NewAction("add_vstorage", w.attacker)
	v.Size = 100_000_000
	s.Do(v)
	return w
}

func (w *c10World) victimStore(t *rapid.T, s *Sim) *Action {
	a := NewAction("store", w.gateway)
	a.Owner, a.PropProv = w.owner, w.gateway
	a.DataId = DataIdN(w.nextData)
	w.nextData++
	a.Commit, a.Alias, a.Cid = a.DataId, "m"+a.DataId[30:], CidA
	a.Op, a.Size, a.Replica, a.Duration, a.Timeout = 1, 1_000_000, int32(rapid.IntRange(1, 2).Draw(t, "replica")), 5000, int32(rapid.IntRange(5, 30).Draw(t, "timeout"))
	switch rapid.IntRange(0, 3).Draw(t, "submitter") {
	case 1:
		a.Creator, a.MsgProv = 7, w.gateway // the gateway's registered hot key
	case 2:
		if w.sidOwner >= 0 {
			a.Owner, a.Creator, a.MsgProv = w.sidOwner, w.sidAcct, -1 // an account bound to the owner: order stays Pending
		}
	case 3:
		a.PayDid, a.Creator, a.MsgProv = w.sponsor, s.Dids[w.sponsor].Acct, w.gateway
	}
	return a
}

func (w *c10World) genAttack(t *rapid.T, s *Sim) *Action {
	sn := s.Last
	att := rapid.SampledFrom([]int{w.attacker, w.attacker, w.attacker2}).Draw(t, "attackerAcct")
	kinds := []string{"cancel", "complete", "ready", "migrate", "store", "node"}
	kind := rapid.SampledFrom(kinds).Draw(t, "attack")
	mk := func(k string) *Action {
		a := NewAction(k, att)
		a.Extra = map[string]string{"adv": "1"}
		return a
	}
	claimed := func(victim int) int {
		// the provider the attacker claims to act for: the victim, its own node, or nobody
		return rapid.SampledFrom([]int{victim, w.attacker, -1}).Draw(t, "claimedProvider")
	}
	switch kind {
	case "cancel":
		var cands []ordertypes.Order
		for _, o := range sortedOrders(sn) {
			if o.Status != ordertypes.OrderCompleted && o.Operation != 3 {
				cands = append(cands, o)
			}
		}
		if len(cands) == 0 {
			return nil
		}
		o := cands[rapid.IntRange(0, len(cands)-1).Draw(t, "order")]
		a := mk("cancel")
		a.Order = o.Id
		a.MsgProv = claimed(s.acctOf(o.Provider))
		a.Extra["legitCreator"], a.Extra["legitProv"] = fmt.Sprint(s.acctOf(o.Creator)), "-1"
		a.Extra["variant"] = fmt.Sprintf("claims-%s", w.who(a.MsgProv))
		if rapid.IntRange(0, 3).Draw(t, "insiderAttack") == 0 {
			w.insider(t, a, s.acctOf(o.Provider), w.providers, []int{s.acctOf(o.Provider), -1})
		}
		return a
	case "complete":
		var cands []ordertypes.Shard
		for _, sh := range sortedShards(sn) {
			if sh.Status == ordertypes.ShardWaiting || sh.Status == ordertypes.ShardMigrating {
				cands = append(cands, sh)
			}
		}
		if len(cands) == 0 {
			return nil
		}
		sh := cands[rapid.IntRange(0, len(cands)-1).Draw(t, "shard")]
		oid, ok := s.orderListing(sh)
		if !ok {
			return nil
		}
		a := mk("complete")
		a.Order, a.Cid, a.Size = oid, sh.Cid, sh.Size_
		a.MsgProv = claimed(s.acctOf(sh.Sp))
		a.Extra["legitCreator"], a.Extra["legitProv"] = fmt.Sprint(s.acctOf(sh.Sp)), "-1"
		a.Extra["variant"] = fmt.Sprintf("claims-%s", w.who(a.MsgProv))
		if rapid.IntRange(0, 2).Draw(t, "insiderAttack") == 0 {
			// another victim party reports the shard for its provider: the order's gateway, its hot key, another provider
			// (Complete acts on the shard of msg.Provider: only naming the victim is acting for it)
			w.insider(t, a, s.acctOf(sh.Sp), []int{w.gateway, 7, 3, 4, 5}, []int{s.acctOf(sh.Sp)})
		}
		return a
	case "ready":
		var cands []ordertypes.Order
		for _, o := range sortedOrders(sn) {
			if o.Status == ordertypes.OrderPending {
				cands = append(cands, o)
			}
		}
		if len(cands) == 0 {
			return nil
		}
		o := cands[rapid.IntRange(0, len(cands)-1).Draw(t, "order")]
		a := mk("ready")
		a.Order = o.Id
		a.MsgProv = claimed(s.acctOf(o.Provider))
		a.Extra["legitCreator"], a.Extra["legitProv"] = fmt.Sprint(s.acctOf(o.Provider)), "-1"
		a.Extra["variant"] = fmt.Sprintf("claims-%s", w.who(a.MsgProv))
		if rapid.IntRange(0, 3).Draw(t, "insiderAttack") == 0 {
			w.insider(t, a, s.acctOf(o.Provider), w.providers, []int{s.acctOf(o.Provider), -1})
		}
		return a
	case "migrate":
		var cands []ordertypes.Shard
		for _, sh := range sortedShards(sn) {
			if sh.Status == ordertypes.ShardCompleted {
				cands = append(cands, sh)
			}
		}
		if len(cands) == 0 {
			return nil
		}
		sh := cands[rapid.IntRange(0, len(cands)-1).Draw(t, "shard")]
		o, ok := listingOrder(sn, sh)
		if !ok {
			return nil
		}
		a := mk("migrate")
		a.Data = []string{o.DataId}
		a.MsgProv = claimed(s.acctOf(sh.Sp))
		a.Extra["legitCreator"], a.Extra["legitProv"] = fmt.Sprint(s.acctOf(sh.Sp)), "-1"
		a.Extra["variant"] = fmt.Sprintf("claims-%s", w.who(a.MsgProv))
		if rapid.IntRange(0, 2).Draw(t, "insiderAttack") == 0 {
			// parties that hold no shard of this data id themselves (a holder may migrate its own shard)
			holds := map[int]bool{}
			for _, x := range sortedShards(sn) {
				if lo, ok := listingOrder(sn, x); ok && lo.DataId == o.DataId {
					holds[s.acctOf(x.Sp)] = true
				}
			}
			var pool []int
			for _, c := range []int{w.gateway, 7, 3, 4, 5} {
				if !holds[c] && !(c == 7 && holds[w.gateway]) {
					pool = append(pool, c)
				}
			}
			w.insider(t, a, s.acctOf(sh.Sp), pool, []int{s.acctOf(sh.Sp), -1})
		}
		return a
	case "store":
		// a captured owner-signed proposal naming the victim gateway, submitted by the attacker
		a := w.victimStore(t, s)
		a.PayDid = -1
		a.Owner = w.owner
		a.Creator = att
		a.MsgProv = claimed(w.gateway)
		a.Extra = map[string]string{"adv": "1", "legitCreator": fmt.Sprint(w.gateway), "legitProv": "-1"}
		a.Extra["variant"] = fmt.Sprintf("owner-signed-names-gateway-claims-%s", w.who(a.MsgProv))
		if w.formerMember > 0 && rapid.IntRange(0, 3).Draw(t, "formerMember") == 0 {
			// the sid owner's captured proposal, submitted by an account that is no longer bound to it
			a.Owner, a.Creator, a.MsgProv = w.sidOwner, w.formerMember, -1
			a.Extra["legitCreator"], a.Extra["legitProv"] = fmt.Sprint(w.sidAcct), "-1"
			a.Extra["variant"] = "former-member-of-the-owner-did"
			return a
		}
		if rapid.IntRange(0, 2).Draw(t, "sponsored") == 0 {
			a.PayDid = w.sponsor
			a.Extra["legitCreator"], a.Extra["legitProv"] = fmt.Sprint(s.Dids[w.sponsor].Acct), fmt.Sprint(w.gateway)
			a.Extra["variant"] = "names-sponsor-not-submitted-by-it"
			switch rapid.IntRange(0, 2).Draw(t, "sponsorCraft") {
			case 1:
				// msg.Provider merely *names* the sponsor's address
				a.MsgProv = s.Dids[w.sponsor].Acct
				a.Extra["variant"] = "names-sponsor-claims-sponsor-address"
			case 2:
				// the attacker's own proposal (its own DID as owner), sponsor named as payer and as msg.Provider
				a.Owner, a.Signer = att, att
				a.MsgProv = s.Dids[w.sponsor].Acct
				a.Extra["variant"] = "own-proposal-names-sponsor-claims-sponsor-address"
			}
		}
		return a
	default:
		k := rapid.SampledFrom([]string{"node_reset", "add_vstorage", "remove_vstorage", "claim"}).Draw(t, "nodeMsg")
		a := mk(k)
		a.Creator = w.attacker
		a.Status = 3
		a.Size = 1_000_000
		a.TxAddrs = []int{2, 3}
		p := rapid.SampledFrom(w.providers).Draw(t, "victimNode")
		a.Extra["legitCreator"], a.Extra["legitProv"] = fmt.Sprint(p), "-1"
		a.Extra["variant"] = "own-node-only"
		return a
	}
}

// insider replaces the sender of an attack by one of the victim parties that is NOT entitled to
// the action: another storage provider, the gateway, or the gateway's registered hot key acting for
// a provider (legit = the account entitled to it). Returns false when no such party exists.
func (w *c10World) insider(t *rapid.T, a *Action, legit int, pool []int, claims []int) bool {
	var cands []int
	for _, c := range pool {
		if c == legit || (legit == w.gateway && c == 7) { // 7 is the gateway's own registered address
			continue
		}
		cands = append(cands, c)
	}
	if len(cands) == 0 {
		return false
	}
	a.Creator = rapid.SampledFrom(cands).Draw(t, "insider")
	a.MsgProv = rapid.SampledFrom(claims).Draw(t, "insiderClaims")
	who := "provider"
	switch a.Creator {
	case w.gateway:
		who = "gateway"
	case 7:
		who = "gateway-hot-key"
	}
	claimed := "self"
	switch a.MsgProv {
	case legit:
		claimed = "victim"
	case w.gateway:
		claimed = "gateway"
	}
	a.Extra["variant"] = fmt.Sprintf("insider-%s-claims-%s", who, claimed)
	return true
}

func (w *c10World) who(i int) string {
	switch {
	case i == w.attacker:
		return "own-node"
	case i < 0:
		return "self"
	default:
		return "victim"
	}
}

func c10Property(t *rapid.T) {
	o := &C10Oracle{attackers: map[string]bool{}}
	s := NewSim(t, "C10", o)
	aborted := RunCase(func() {
		w := setupC10(t, s)
		o.attackers[s.bech(w.attacker)] = true
		o.attackers[s.bech(w.attacker2)] = true
		cfg := DefaultLifeCfg()
		cfg.Providers = []int{2, 3, 4, 5}
		n := rapid.IntRange(2, 25).Draw(t, "steps")
		for i := 0; i < n; i++ {
			switch rapid.IntRange(0, 9).Draw(t, "step") {
			case 0, 1:
				if w.nextData <= 6 {
					s.Do(w.victimStore(t, s))
				}
			case 2:
				if a := cfg.GenComplete(t, s); a != nil {
					s.Do(a)
				}
			case 3:
				adv := NewAction("advance", 0)
				adv.Blocks = int64(rapid.IntRange(1, 8).Draw(t, "blocks"))
				s.Do(adv)
			default:
				if a := w.genAttack(t, s); a != nil {
					s.Do(a)
				}
			}
		}
	})
	if aborted != "" {
		stats.Abort(aborted)
		return
	}
	stats.Record(s.HistHash(), o.Twins > 0, s.Labels, s.Excluded, func() any { return s.Summary() })
}

func TestC10(t *testing.T) { runRapid(t, "TestC10", c10Property) }

func init() {
	replayers["TestC10"] = func(t TB, v *Violation) {
		o := &C10Oracle{attackers: map[string]bool{}}
		s := NewSim(t, "C10", o)
		o.attackers[s.bech(6)] = true
		o.attackers[s.bech(11)] = true
		replayHistory(s, v.History)
	}
}
