package props

import (
	"fmt"
	"reflect"
	"strings"
	"testing"

	"saoverif/chain"

	nodetypes "github.com/SaoNetwork/sao/x/node/types"
	ordertypes "github.com/SaoNetwork/sao/x/order/types"
	"pgregory.net/rapid"
)

// ---- C19: fault reports ----

func faultsOf(sn *chain.Snapshot) map[string]nodetypes.Fault {
	out := map[string]nodetypes.Fault{}
	for k, v := range sn.NodeRaw {
		if strings.HasPrefix(k, nodetypes.FaultIdKeyPrefix) {
			var f nodetypes.Fault
			if err := f.Unmarshal(v); err == nil {
				out[strings.TrimPrefix(k, nodetypes.FaultIdKeyPrefix)] = f
			}
		}
	}
	return out
}

func faultIndexOf(sn *chain.Snapshot) map[string]string {
	out := map[string]string{}
	for k, v := range sn.NodeRaw {
		if strings.HasPrefix(k, nodetypes.FaultKeyPrefix) {
			out[k] = string(v)
		}
	}
	return out
}

type C19Oracle struct {
	NopOracle
	fishmen   map[string]bool
	Recorded  int
	Skipped   int
	Cleared   int
	TicksWith int
}

func (o *C19Oracle) Name() string { return "C19" }

func (o *C19Oracle) AfterAction(s *Sim, a *Action, pre, post *chain.Snapshot, res *chain.TxResult) {
	if a.Kind != "report_faults" && a.Kind != "recover_faults" {
		return
	}
	h := uint64(s.C.Height)
	me := s.bech(a.Creator)
	accused := s.bech(a.Target)
	trig := map[string]string{"msg": a.Kind, "reporter": a.Extra["reporterKind"]}
	fpre, fpost := faultsOf(pre), faultsOf(post)
	changed := !reflect.DeepEqual(fpre, fpost) || !reflect.DeepEqual(faultIndexOf(pre), faultIndexOf(post))
	_, isNode := pre.Nodes[me]
	isFishman := isNode && o.fishmen[me]

	// (who)
	if changed && !isFishman {
		if a.Kind == "recover_faults" && me == accused && isNode {
			// the accused provider may declare recovery, but only for faults recorded against itself
			for id, f := range fpost {
				if old, ok := fpre[id]; (!ok || !reflect.DeepEqual(old, f)) && f.Provider != me {
					s.FailT("provider-touched-foreign-fault", "", trig, "%s changed fault %s recorded against %s", tail(me), id, tail(f.Provider))
				}
			}
			for id, f := range fpre {
				if _, ok := fpost[id]; !ok && f.Provider != me {
					s.FailT("provider-touched-foreign-fault", "", trig, "%s cleared fault %s recorded against %s", tail(me), id, tail(f.Provider))
				}
			}
		} else {
			s.FailT("non-fishman-changed-faults", "", trig, "%s by %s (node=%v, fishman=%v, accused=%s) changed the fault tables", a.Kind, tail(me), isNode, o.fishmen[me], tail(accused))
		}
	}
	// (what) a record that already existed keeps naming the same shard, order, data model and provider
	for id, f := range fpost {
		if old, ok := fpre[id]; ok && !reflect.DeepEqual(old, f) {
			if f.DataId != old.DataId || f.OrderId != old.OrderId || f.ShardId != old.ShardId || f.Provider != old.Provider {
				s.FailT("fault-record-identity-changed", "", trig, "%s by %s rewrote fault %s: data model %s -> %s, order %d -> %d, shard %d -> %d, provider %s -> %s", a.Kind, tail(me), id,
					tail(old.DataId), tail(f.DataId), old.OrderId, f.OrderId, old.ShardId, f.ShardId, tail(old.Provider), tail(f.Provider))
			}
		}
	}
	// (what) newly recorded faults
	newRec := 0
	for id, f := range fpost {
		if _, ok := fpre[id]; ok {
			continue
		}
		newRec++
		sh, ok := pre.Shards[f.ShardId]
		if !ok {
			s.FailT("fault-on-missing-shard", "", trig, "fault %s recorded for shard %d which does not exist", id, f.ShardId)
		}
		if sh.Sp != f.Provider {
			s.FailT("fault-on-foreign-shard", "", trig, "fault %s accuses %s of shard %d which is held by %s", id, tail(f.Provider), f.ShardId, tail(sh.Sp))
		}
		ord, ok := pre.Orders[f.OrderId]
		if !ok {
			s.FailT("fault-on-missing-order", "", trig, "fault %s names order %d which does not exist", id, f.OrderId)
		}
		listed := false
		for _, sid := range ord.Shards {
			if sid == f.ShardId {
				listed = true
			}
		}
		if !listed {
			s.FailT("fault-shard-not-in-order", "", trig, "fault %s: shard %d is not listed by order %d", id, f.ShardId, f.OrderId)
		}
		paying := sh.OrderId == f.OrderId
		for _, ri := range sh.RenewInfos {
			if ri.OrderId == f.OrderId {
				paying = true
			}
		}
		if !paying {
			s.FailT("fault-names-order-that-does-not-pay-for-the-shard", "", trig, "fault %s: shard %d is paid by order %d (queued renewals %d) but the report names order %d", id, f.ShardId, sh.OrderId, len(sh.RenewInfos), f.OrderId)
		}
		if ord.DataId != f.DataId {
			s.FailT("fault-wrong-data-model", "", trig, "fault %s names data model %s but order %d belongs to %s", id, tail(f.DataId), f.OrderId, tail(ord.DataId))
		}
		if sh.CreatedAt+sh.Duration <= h || sh.Status != ordertypes.ShardCompleted {
			s.FailT("fault-on-expired-shard", "", trig, "fault %s recorded at h=%d for shard %d (status %d, paid period %d+%d)", id, h, f.ShardId, sh.Status, sh.CreatedAt, sh.Duration)
		}
		if f.Provider != accused {
			s.FailT("fault-on-unaccused-provider", "", trig, "message accuses %s but fault %s is recorded against %s", tail(accused), id, tail(f.Provider))
		}
	}
	o.Recorded += newRec
	if newRec > 0 {
		s.Label("c19-recorded")
		if newRec < len(a.Faults) {
			o.Skipped++
			s.Label("c19-recorded-with-skips")
		}
	}
	for id := range fpre {
		if _, ok := fpost[id]; !ok {
			o.Cleared++
			s.Label("c19-cleared")
		}
	}
	// (isolation)
	for _, acc := range s.W.Accounts {
		if !pre.Bal[acc.Bech].Equal(post.Bal[acc.Bech]) {
			s.FailT("fault-message-moved-funds", "", trig, "%s changed the balance of %s", a.Kind, tail(acc.Bech))
		}
	}
	for _, m := range chain.StorageModules {
		if !pre.Bal["mod:"+m].Equal(post.Bal["mod:"+m]) {
			s.FailT("fault-message-moved-funds", "", trig, "%s changed the balance of module %s", a.Kind, m)
		}
	}
	if !reflect.DeepEqual(pre.Orders, post.Orders) || !reflect.DeepEqual(pre.Shards, post.Shards) || !reflect.DeepEqual(pre.Workers, post.Workers) || !reflect.DeepEqual(pre.Metas, post.Metas) {
		s.FailT("fault-message-changed-storage-records", "", trig, "%s changed orders / shards / workers / models", a.Kind)
	}
	for sp, p := range pre.Pledges {
		q := post.Pledges[sp]
		if sp != accused && !reflect.DeepEqual(p, q) {
			s.FailT("fault-message-changed-other-pledge", "", trig, "%s accusing %s changed the pledge of %s", a.Kind, tail(accused), tail(sp))
		}
		if sp == accused {
			o.penaltyBounds(s, p, q, trig)
		}
	}
	if !reflect.DeepEqual(pre.Nodes, post.Nodes) {
		s.FailT("fault-message-changed-nodes", "", trig, "%s changed node records", a.Kind)
	}
}

func (o *C19Oracle) penaltyBounds(s *Sim, p, q nodetypes.Pledge, trig map[string]string) {
	if decOr0(q.Reward.Amount).IsNegative() || intOr0(q.TotalStoragePledged.Amount).IsNegative() || intOr0(q.TotalShardPledged.Amount).IsNegative() || decOr0(q.RewardDebt.Amount).IsNegative() {
		s.FailT("penalty-exceeds-holdings", "", trig, "accused provider's pledge went negative: reward %s debt %s pledged %s/%s", q.Reward, q.RewardDebt, q.TotalStoragePledged, q.TotalShardPledged)
	}
	if q.TotalStorage != p.TotalStorage || q.UsedStorage != p.UsedStorage {
		s.FailT("penalty-changed-capacity", "", trig, "accused provider's capacity changed %d/%d -> %d/%d", p.UsedStorage, p.TotalStorage, q.UsedStorage, q.TotalStorage)
	}
}

// Step: penalty ticks (node end-blocker at multiples of 600) touch only faulty providers' own records.
func (o *C19Oracle) Step(s *Sim, step string, pre, post *chain.Snapshot) {
	if step != "node.EndBlock" {
		return
	}
	if post.Height%600 == 0 && len(faultsOf(pre)) > 0 {
		o.TicksWith++
		s.Label("c19-penalty-tick-with-open-fault")
	}
	accused := map[string]bool{}
	for _, f := range faultsOf(pre) {
		if f.Status == nodetypes.FaultStatusConfirmed {
			accused[f.Provider] = true
			s.Label("c19-confirmed-fault-at-tick")
		}
	}
	for sp, p := range pre.Pledges {
		if !accused[sp] && !reflect.DeepEqual(p, post.Pledges[sp]) {
			s.FailT("penalty-tick-changed-innocent-pledge", "", nil, "h=%d node end-blocker changed the pledge of %s which has no confirmed fault", post.Height, tail(sp))
		}
	}
	for _, acc := range s.W.Accounts {
		if !pre.Bal[acc.Bech].Equal(post.Bal[acc.Bech]) {
			s.FailT("penalty-tick-moved-funds", "", nil, "h=%d node end-blocker changed the balance of %s", post.Height, tail(acc.Bech))
		}
	}
	for sp, n := range pre.Nodes {
		m := post.Nodes[sp]
		if !accused[sp] && n.Status != m.Status && post.Height%600 == 0 && n.LastAliveHeight+s.W.App.NodeKeeper.OfflineTriggerHeight(s.C.Ctx()) >= post.Height {
			s.FailT("penalty-tick-changed-innocent-node", "", nil, "h=%d status of %s changed %d->%d without a confirmed fault", post.Height, tail(sp), n.Status, m.Status)
		}
	}
}

func c19Property(t *rapid.T) {
	o := &C19Oracle{fishmen: map[string]bool{}}
	s := NewSim(t, "C19", o)
	s.TraceSteps = true
	aborted := RunCase(func() {
		cfg := DefaultLifeCfg()
		cfg.Providers = []int{2, 3, 4, 5, 6}
		s.SetupStorage(cfg, 1_000_000_000)
		// fishmen: nodes 5 and 6 plus a listed address that is not a node (account 11)
		p := chain.DefaultNodeParams(s.W.Cfg.Denom)
		p.FishmenInfo = s.bech(5) + "," + s.bech(6) + "," + s.bech(11)
		pa := NewAction("params", 0)
		pa.Params = &p
		s.Do(pa)
		o.fishmen[s.bech(5)], o.fishmen[s.bech(6)], o.fishmen[s.bech(11)] = true, true, true
		// 5 and 6 stop accepting orders so that the shards sit with 2,3,4
		for _, f := range []int{5, 6} {
			r := NewAction("node_reset", f)
			r.Status = 3 | nodetypes.NODE_STATUS_SERVE_FISHING | nodetypes.NODE_STATUS_SERVE_STORAGE
			s.Do(r)
		}
		nModels := rapid.IntRange(1, 3).Draw(t, "models")
		for i := 1; i <= nModels; i++ {
			st := NewAction("store", 2)
			st.Owner, st.PropProv, st.DataId, st.Commit, st.Alias, st.Cid = 8, 2, DataIdN(i), DataIdN(i), fmt.Sprint("m", i), CidA
			st.Op, st.Size, st.Replica, st.Duration, st.Timeout = 1, 1_000_000, int32(rapid.IntRange(1, 3).Draw(t, "replica")), uint64(rapid.SampledFrom([]int{3600, 3700, 5000}).Draw(t, "dur")), 10
			if !s.Do(st).OK {
				continue
			}
			var waiting []ordertypes.Shard
			for _, sh := range sortedShards(s.Last) {
				if sh.Status == ordertypes.ShardWaiting {
					waiting = append(waiting, sh)
				}
			}
			if rapid.Bool().Draw(t, "reverseOrder") {
				for l, r := 0, len(waiting)-1; l < r; l, r = l+1, r-1 {
					waiting[l], waiting[r] = waiting[r], waiting[l]
				}
			}
			for _, sh := range waiting {
				if rapid.IntRange(0, 5).Draw(t, "complete") > 0 {
					c := NewAction("complete", s.acctOf(sh.Sp))
					c.Order, c.Cid, c.Size = sh.OrderId, sh.Cid, sh.Size_
					s.Do(c)
					if rapid.Bool().Draw(t, "blockBetween") {
						adv := NewAction("advance", 0)
						adv.Blocks = int64(rapid.IntRange(1, 4).Draw(t, "gap"))
						s.Do(adv)
					}
				}
			}
		}
		// some models are renewed: their shards live on under the renewal order after the first term
		if rapid.Bool().Draw(t, "renewSome") {
			for i := 1; i <= nModels; i++ {
				if m, ok := s.Last.Metas[DataIdN(i)]; ok && m.Status == 4 && rapid.Bool().Draw(t, "renewThis") {
					rn := NewAction("renew", 2)
					rn.Owner, rn.Data, rn.Duration, rn.Timeout = 8, []string{DataIdN(i)}, uint64(rapid.SampledFrom([]int{3600, 4000}).Draw(t, "renewDur")), 10
					if s.Do(rn).OK {
						s.Label("c19-model-renewed")
					}
				}
			}
		}
		n := rapid.IntRange(1, 20).Draw(t, "steps")
		for i := 0; i < n; i++ {
			switch rapid.IntRange(0, 9).Draw(t, "step") {
			case 0:
				adv := NewAction("advance", 0)
				adv.Blocks = int64(rapid.SampledFrom([]int{1, 5, 598, 600, 1200, 3000, 3610}).Draw(t, "blocks"))
				s.Do(adv)
			default:
				s.Do(genFaultMsg(t, s, o))
			}
		}
	})
	if aborted != "" {
		stats.Abort(aborted)
		return
	}
	stats.Record(s.HistHash(), o.Recorded > 0 && o.Skipped > 0, s.Labels, s.Excluded, func() any { return c19Summary(s) })
}

func genFaultMsg(t *rapid.T, s *Sim, o *C19Oracle) *Action {
	sn := s.Last
	kind := rapid.SampledFrom([]string{"report_faults", "report_faults", "recover_faults"}).Draw(t, "msg")
	reporters := map[string]int{"fishman": 5, "fishman2": 6, "ordinary-node": 4, "non-node": 9, "listed-non-node": 11, "accused": -2, "other-provider": 3}
	rk := rapid.SampledFrom([]string{"fishman", "fishman", "fishman2", "ordinary-node", "non-node", "listed-non-node", "accused", "other-provider"}).Draw(t, "reporter")
	accused := rapid.SampledFrom([]int{2, 3, 4}).Draw(t, "accused")
	creator := reporters[rk]
	if creator == -2 {
		creator = accused
	}
	a := NewAction(kind, creator)
	a.Target = accused
	a.Extra = map[string]string{"reporterKind": rk}
	shards := sortedShards(sn)
	existing := faultsOf(sn)
	ne := rapid.IntRange(1, 4).Draw(t, "entries")
	for j := 0; j < ne; j++ {
		var e FaultEntry
		e.Provider = accused
		if kind == "recover_faults" && len(existing) > 0 && rapid.IntRange(0, 3).Draw(t, "existing") > 0 {
			// aim at a recorded fault
			ids := chain.SortedStr(existing)
			f := existing[ids[rapid.IntRange(0, len(ids)-1).Draw(t, "fault")]]
			e = FaultEntry{DataId: f.DataId, OrderId: f.OrderId, ShardId: f.ShardId, CommitId: f.CommitId, Provider: s.acctOf(f.Provider)}
			if ord, ok := sn.Orders[f.OrderId]; ok && rapid.Bool().Draw(t, "matchCommit") {
				e.CommitId = ord.Commit
			}
			if rapid.IntRange(0, 2).Draw(t, "otherOrder") == 0 {
				// a self-consistent entry for ANOTHER order in which the same provider holds a shard,
				// carrying the shard id of the recorded fault
				for _, osh := range shards {
					if osh.Sp == f.Provider && osh.OrderId != f.OrderId {
						if oo, ok := sn.Orders[osh.OrderId]; ok {
							e.OrderId, e.DataId, e.CommitId = oo.Id, oo.DataId, oo.Commit
							a.Extra["recoverVariant"] = "other-order-same-shard-id"
							break
						}
					}
				}
			}
			if rapid.IntRange(0, 4).Draw(t, "retarget") > 0 {
				a.Target = e.Provider
				if rk == "accused" {
					a.Creator = e.Provider
				}
			}
			a.Faults = append(a.Faults, e)
			continue
		}
		if len(shards) > 0 {
			sh := shards[rapid.IntRange(0, len(shards)-1).Draw(t, "shard")]
			// start from a fully matching entry for a shard, then independently break fields
			e.ShardId, e.OrderId = sh.Id, sh.OrderId
			if ord, ok := sn.Orders[sh.OrderId]; ok {
				e.DataId = ord.DataId
			}
			if rapid.IntRange(0, 3).Draw(t, "otherListingOrder") == 0 {
				// any other order that (still) lists the shard, e.g. the order of a term that has ended
				for _, oo := range sortedOrders(sn) {
					for _, sid := range oo.Shards {
						if sid == sh.Id && oo.Id != sh.OrderId {
							e.OrderId, e.DataId = oo.Id, oo.DataId
						}
					}
				}
			}
			if rapid.IntRange(0, 2).Draw(t, "accuseHolder") > 0 {
				e.Provider = s.acctOf(sh.Sp)
				if j == 0 {
					a.Target = e.Provider
				}
			}
		}
		e.CommitId = rapid.SampledFrom([]string{"no-such-commit", "no-such-commit", "", e.DataId}).Draw(t, "commitId")
		switch rapid.IntRange(0, 7).Draw(t, "break") {
		case 0:
			e.DataId = DataIdN(77)
		case 1:
			e.OrderId += uint64(rapid.IntRange(1, 3).Draw(t, "orderOff"))
		case 2:
			e.ShardId += uint64(rapid.IntRange(1, 5).Draw(t, "shardOff"))
		case 3:
			e.Provider = rapid.SampledFrom([]int{2, 3, 4, 5}).Draw(t, "entryProvider")
		case 4:
			e.DataId = DataIdN(rapid.IntRange(1, 3).Draw(t, "otherModel"))
		}
		a.Faults = append(a.Faults, e)
	}
	return a
}

func c19Summary(s *Sim) []string {
	var out []string
	for _, a := range s.Hist {
		if a.Kind == "report_faults" || a.Kind == "recover_faults" {
			st := "ok"
			if !a.OK {
				st = "rejected(" + short(a.Err) + ")"
			}
			out = append(out, fmt.Sprintf("h%d %s by=%d(%s) accused=%d entries=%v -> %s", a.H, a.Kind, a.Creator, a.Extra["reporterKind"], a.Target, a.Faults, st))
		} else if a.Kind == "advance" || a.Kind == "store" || a.Kind == "complete" {
			out = append(out, a.String())
		}
	}
	return out
}

func TestC19(t *testing.T) { runRapid(t, "TestC19", c19Property) }

func init() {
	replayers["TestC19"] = func(t TB, v *Violation) {
		o := &C19Oracle{fishmen: map[string]bool{}}
		s := NewSim(t, "C19", o)
		s.TraceSteps = true
		o.fishmen[s.bech(5)], o.fishmen[s.bech(6)], o.fishmen[s.bech(11)] = true, true, true
		replayHistory(s, v.History)
	}
}
