package props

import (
	"crypto/sha256"
	"encoding/hex"
	"encoding/json"
	"fmt"
	"sync"

	"saoverif/chain"

	nodetypes "github.com/SaoNetwork/sao/x/node/types"
	saotypes "github.com/SaoNetwork/sao/x/sao/types"
	sdk "github.com/cosmos/cosmos-sdk/types"
	govv1beta1 "github.com/cosmos/cosmos-sdk/x/gov/types/v1beta1"
	"github.com/cosmos/cosmos-sdk/crypto/keys/secp256k1"
)

// TB is the part of *rapid.T / the replay runner the simulation needs.
type TB interface {
	Fatalf(format string, args ...any)
	Logf(format string, args ...any)
}

// Oracle observes a history. Any hook may call s.Fail.
type Oracle interface {
	Name() string
	BeforeAction(s *Sim, a *Action)
	AfterAction(s *Sim, a *Action, pre, post *chain.Snapshot, res *chain.TxResult)
	// Boundary is called between EndBlock(h) and BeginBlock(h+1).
	Boundary(s *Sim, snap *chain.Snapshot)
	// Invariant is called at every real boundary and, after every message, on a
	// fork of the chain on which the current block has been closed ("if the block
	// ended here"): it must be a pure function of the snapshot.
	Invariant(s *Sim, c *chain.Chain, snap *chain.Snapshot)
	// Step is called around individual blocker steps at observed boundaries.
	Step(s *Sim, step string, pre, post *chain.Snapshot)
}

type NopOracle struct{}

func (NopOracle) AfterAction(*Sim, *Action, *chain.Snapshot, *chain.Snapshot, *chain.TxResult) {}
func (NopOracle) Boundary(*Sim, *chain.Snapshot)                                               {}
func (NopOracle) Invariant(*Sim, *chain.Chain, *chain.Snapshot)                                {}
func (NopOracle) BeforeAction(*Sim, *Action)                                                   {}
func (NopOracle) Step(*Sim, string, *chain.Snapshot, *chain.Snapshot)                          {}

var (
	baseWorldOnce sync.Once
	baseWorld     *chain.World
	baseWorldErr  error
)

// BaseWorld returns the per-process world every L2 case forks from.
func BaseWorld() (*chain.World, error) {
	baseWorldOnce.Do(func() {
		baseWorld, baseWorldErr = chain.NewWorld(chain.DefaultGenesisConfig())
	})
	return baseWorld, baseWorldErr
}

// Sim is one case: a chain forked from the base world, its history and oracles.
type Sim struct {
	T        TB
	Prop     string
	W        *chain.World
	C        *chain.Chain
	Dids     []*DidRef
	Hist     []*Action
	Oracles  []Oracle
	Labels   map[string]int
	Last     *chain.Snapshot // snapshot after the last action / observed boundary
	sched    map[int64]bool
	Excluded map[string]int
	// ObserveEvery forces a boundary observation every N blocks (0 = only scheduled heights).
	ObserveEvery int64
	// TraceSteps enables per-step snapshots at observed boundaries.
	TraceSteps bool
	LastSelect []string
	// EveryStep, when set, is called around every blocker step of every block (must be cheap).
	EveryStep func(step string, before bool)
	// HypoBoundary evaluates Invariant oracles after every successful message on a fork whose block is closed.
	HypoBoundary bool
	failed       bool
}

// NewSim forks the base world. Key DIDs for all accounts are pre-registered in s.Dids
// (index i = did:key of account i).
func NewSim(t TB, prop string, oracles ...Oracle) *Sim {
	return newSim(t, prop, true, oracles...)
}

// newSim with begin=false leaves the first block unopened (L3 tests open it with the replicas' seed).
func newSim(t TB, prop string, begin bool, oracles ...Oracle) *Sim {
	w, err := BaseWorld()
	if err != nil {
		infra("base world: %v", err)
	}
	return newSimOn(w, t, prop, begin, oracles...)
}

// newSimOn starts a case on a specific world (own genesis configuration).
func newSimOn(w *chain.World, t TB, prop string, begin bool, oracles ...Oracle) *Sim {
	s := &Sim{T: t, Prop: prop, W: w, C: chain.NewChain(w), Oracles: oracles, Labels: map[string]int{}, Excluded: map[string]int{}, sched: map[int64]bool{}}
	for i, a := range w.Accounts {
		did := chain.KeyDid(a.Priv)
		s.Dids = append(s.Dids, &DidRef{Kind: "key", Acct: i, Did: did, Kid: chain.KeyDidKid(did), Priv: a.Priv})
	}
	if begin {
		if err := s.C.BeginBlock(); err != nil {
			s.liveness(err)
		}
	}
	s.Last = s.C.Snap()
	return s
}

// OpenFirstBlock opens the first block of a Sim created with begin=false.
func (s *Sim) OpenFirstBlock() {
	if err := s.C.BeginBlock(); err != nil {
		s.liveness(err)
	}
	s.Last = s.C.Snap()
}

func (s *Sim) Label(l string) { s.Labels[l]++ }

// Violation describes a failed oracle; it is what replay files and known findings are matched on.
type Violation struct {
	Property string            `json:"property"`
	Rule     string            `json:"rule"`
	Site     string            `json:"site,omitempty"`
	Detail   string            `json:"detail"`
	Trigger  map[string]string `json:"trigger,omitempty"`
	History  []*Action         `json:"history"`
	Test     string            `json:"test"`
	Extra    map[string]any    `json:"extra,omitempty"`
}

// Fail records a violation (overwriting any earlier one of this process: rapid's
// last failing run is the minimal one) and aborts the case.
func (s *Sim) Fail(rule, site, format string, args ...any) {
	s.FailT(rule, site, nil, format, args...)
}

func (s *Sim) FailT(rule, site string, trigger map[string]string, format string, args ...any) {
	v := &Violation{Property: s.Prop, Rule: rule, Site: site, Detail: fmt.Sprintf(format, args...), Trigger: trigger, History: s.Hist, Test: currentTest}
	lastViolation = v
	if !minimizing {
		writeViolation(v)
	}
	s.failed = true
	s.T.Fatalf("VIOLATED %s rule=%s site=%s: %s", s.Prop, rule, site, v.Detail)
}

// liveness handles hang / halt errors from the driver.
func (s *Sim) liveness(err error) {
	switch e := err.(type) {
	case *chain.HangError:
		// the worker goroutine is still spinning: cannot shrink, report and stop the process
		v := &Violation{Property: s.Prop, Rule: "hang", Site: e.Step, Detail: e.Error(), History: s.Hist, Test: currentTest}
		if s.Prop != "C02" {
			v.Extra = map[string]any{"note": "liveness failure observed while checking " + s.Prop}
		}
		writeViolation(v)
		hardExitViolation()
	case *chain.HaltError:
		if s.Prop == "C02" {
			s.FailT("halt", e.Site(), map[string]string{"step": stepKind(e.Step), "panic": e.Value}, "%s\n%s", e.Error(), e.Stack)
		}
		// for other properties a halt ends the history: the property under test
		// cannot be evaluated past it. It is C02's finding, not theirs.
		s.Label("halted")
		panic(caseAbort{reason: "halt: " + e.Error()})
	default:
		infra("driver error: %v", err)
	}
}

func stepKind(step string) string {
	for i := 0; i < len(step); i++ {
		if step[i] == '(' {
			return step[:i]
		}
	}
	return step
}

// caseAbort ends a case without a verdict (e.g. the chain halted while another property was being checked).
type caseAbort struct{ reason string }

// RunCase executes body, converting caseAbort into a normal return.
func RunCase(body func()) (aborted string) {
	defer func() {
		if r := recover(); r != nil {
			if ca, ok := r.(caseAbort); ok {
				aborted = ca.reason
				return
			}
			panic(r)
		}
	}()
	body()
	return ""
}

// Exec executes a message action on chain c without recording it.
func (s *Sim) Exec(c *chain.Chain, a *Action) *chain.TxResult {
	msg := s.BuildMsg(a)
	if msg == nil {
		infra("action %q is not a message", a.Kind)
	}
	res, err := c.Deliver(msg)
	if err != nil {
		s.liveness(err)
	}
	return res
}

// Do executes an action on the main chain, records it and runs the oracles.
func (s *Sim) Do(a *Action) *chain.TxResult {
	a.H = s.C.Height
	s.Hist = append(s.Hist, a)
	switch a.Kind {
	case "advance":
		s.advance(a.Blocks)
		a.OK = true
		return &chain.TxResult{OK: true}
	case "seed":
		s.C.NextSeed, s.C.NextSeedSet = a.Seed, true
		// the seed applies to the block being opened next: close the current one
		s.advance(1)
		a.OK = true
		return &chain.TxResult{OK: true}
	case "select":
		pre := s.Last
		var ignore []string
		for _, i := range a.Ignore {
			ignore = append(ignore, s.bech(i))
		}
		ctx, write := s.C.Ctx().CacheContext()
		var picked []nodetypes.Node
		pv, _, err := chain.Guard("RandomSP", func() { picked = s.W.App.NodeKeeper.RandomSP(ctx, a.Count, ignore, int64(a.Size)) })
		if err != nil {
			s.liveness(err)
		}
		s.LastSelect = nil
		if pv != "" {
			a.OK, a.Err = false, "panic: "+short(pv)
		} else {
			write()
			a.OK = true
			for _, n := range picked {
				s.LastSelect = append(s.LastSelect, n.Creator)
				a.Note += tail(n.Creator) + " "
			}
		}
		post := s.C.Snap()
		s.Last = post
		res := &chain.TxResult{OK: a.OK}
		for _, o := range s.Oracles {
			o.AfterAction(s, a, pre, post, res)
		}
		return res
	case "install":
		ctx := s.C.Ctx()
		for _, n := range a.Nodes {
			s.W.App.NodeKeeper.SetNode(ctx, nodetypes.Node{Creator: s.bech(n.Acct), Peer: Peer, Reputation: n.Rep, Status: n.Status, LastAliveHeight: n.LastAlive, Role: n.Role})
			if !n.NoPledge {
				d := s.W.Cfg.Denom
				s.W.App.NodeKeeper.SetPledge(ctx, nodetypes.Pledge{Creator: s.bech(n.Acct), TotalStorage: n.Total, UsedStorage: n.Used,
					TotalStoragePledged: sdk.NewInt64Coin(d, 0), TotalShardPledged: sdk.NewInt64Coin(d, 0), Reward: sdk.NewInt64DecCoin(d, 0), RewardDebt: sdk.NewInt64DecCoin(d, 0)})
			}
		}
		if a.Round >= 0 {
			s.W.App.NodeKeeper.SetNodeRound(ctx, uint8(a.Round))
		}
		a.OK = true
		s.Last = s.C.Snap()
		return &chain.TxResult{OK: true}
	case "set_pool":
		ctx := s.C.Ctx()
		pool, _ := s.W.App.NodeKeeper.GetPool(ctx)
		pool.TotalReward = sdk.NewCoin(s.W.Cfg.Denom, sdk.NewInt(a.Amount))
		s.W.App.NodeKeeper.SetPool(ctx, pool)
		a.OK = true
		s.Last = s.C.Snap()
		return &chain.TxResult{OK: true}
	case "slash":
		// what the evidence / slashing modules do in BeginBlock for a misbehaving validator: burn a
		// fraction of its tokens (tokens then differ from delegator shares) and, optionally, jail it
		pre := s.Last
		ctx, write := s.C.Ctx().CacheContext()
		pv, _, err := chain.Guard("Slash", func() {
			cons := s.W.ConsAddr[a.Target]
			v, found := s.W.App.StakingKeeper.GetValidatorByConsAddr(ctx, cons)
			if !found {
				panic("validator not found")
			}
			frac, _ := sdk.NewDecFromStr(a.Extra["fraction"])
			s.W.App.StakingKeeper.Slash(ctx, cons, ctx.BlockHeight(), v.GetConsensusPower(sdk.DefaultPowerReduction), frac)
			if a.Extra["jail"] == "1" && !v.IsJailed() {
				s.W.App.StakingKeeper.Jail(ctx, cons)
			}
		})
		if err != nil {
			s.liveness(err)
		}
		if pv != "" {
			a.OK, a.Err = false, "panic: "+short(pv)
		} else {
			write()
			a.OK = true
		}
		post := s.C.Snap()
		s.Last = post
		res := &chain.TxResult{OK: a.OK}
		for _, o := range s.Oracles {
			o.AfterAction(s, a, pre, post, res)
		}
		return res
	case "params":
		s.W.App.NodeKeeper.SetParams(s.C.Ctx(), *a.Params)
		a.OK = true
		s.Last = s.C.Snap()
		return &chain.TxResult{OK: true}
	}
	pre := s.Last
	for _, o := range s.Oracles {
		o.BeforeAction(s, a)
	}
	res := s.Exec(s.C, a)
	a.OK = res.OK
	a.Err = short(res.ErrString())
	if a.Kind == "store" && a.Op == 2 && res.OK {
		s.Label("storeForce+")
	}
	s.afterMsg(a, res)
	post := s.C.Snap()
	s.Last = post
	s.resched(post)
	s.labelDebts(pre, post)
	for _, o := range s.Oracles {
		o.AfterAction(s, a, pre, post, res)
	}
	if s.HypoBoundary && res.OK {
		f := s.C.Fork()
		if err := f.EndBlock(); err != nil {
			if _, isHalt := err.(*chain.HaltError); !isHalt {
				s.liveness(err)
			}
			// a halt on the fork will be met by the real chain when the block ends
		} else {
			fs := f.Snap()
			for _, o := range s.Oracles {
				o.Invariant(s, f, fs)
			}
		}
	}
	return res
}

func short(e string) string {
	if len(e) > 300 {
		return e[:300]
	}
	return e
}

// afterMsg maintains simulation-side bookkeeping that later generators need.
func (s *Sim) afterMsg(a *Action, res *chain.TxResult) {
	if !res.OK {
		return
	}
	switch a.Kind {
	case "bind_sid":
		if a.Owner < 0 {
			priv := secp256k1.GenPrivKeyFromSecret([]byte(fmt.Sprintf("sid-%d-%d", a.Creator, a.Ts)))
			keys := chain.SidKeys(priv)
			root := chain.SidDocId(keys, a.Ts)
			acct := a.Creator
			if a.Target >= 0 {
				acct = a.Target
			}
			s.Dids = append(s.Dids, &DidRef{Kind: "sid", Acct: acct, Did: "did:sid:" + root, Kid: chain.SidKid(root, root, "signing"), Priv: priv, Root: root, Version: root, Ts: a.Ts})
			a.Note = fmt.Sprintf("did#%d", len(s.Dids)-1)
		}
	case "did_update":
		// key rotation: later proposals of this DID are signed with the new key under the new document
		if a.Owner >= 0 && a.Owner < len(s.Dids) && s.Dids[a.Owner].Kind == "sid" && a.Extra["_newDoc"] != "" {
			d := s.Dids[a.Owner]
			d.Priv = sidPriv(d.Acct, d.Ts, atoi(a.Extra["gen"]))
			d.Version = a.Extra["_newDoc"]
			d.Kid = chain.SidKid(d.Root, d.Version, "signing")
		}
	case "gov_param":
		var r govv1beta1.MsgSubmitProposalResponse
		if err := r.Unmarshal(res.Data); err == nil {
			a.Order = r.ProposalId
			a.Note = fmt.Sprintf("proposal=%d %s=%s", r.ProposalId, a.Extra["key"], a.Extra["value"])
		}
	case "store":
		var r saotypes.MsgStoreResponse
		if err := r.Unmarshal(res.Data); err == nil {
			a.Note = fmt.Sprintf("order=%d shards=%d", r.OrderId, len(r.Shards))
			a.Order = r.OrderId
		}
	case "renew":
		var r saotypes.MsgRenewResponse
		if err := r.Unmarshal(res.Data); err == nil {
			for _, kv := range r.Result {
				a.Note += kv.K[len(kv.K)-4:] + ":" + short(kv.V) + ";"
			}
		}
	case "migrate":
		var r saotypes.MsgMigrateResponse
		if err := r.Unmarshal(res.Data); err == nil {
			for _, kv := range r.Result {
				a.Note += kv.K[len(kv.K)-4:] + ":" + short(kv.V) + ";"
			}
		}
	}
}

func (s *Sim) resched(snap *chain.Snapshot) {
	for h := range snap.ExpData {
		s.sched[int64(h)] = true
	}
	for h := range snap.ExpShards {
		s.sched[int64(h)] = true
	}
	for h := range snap.Timeouts {
		s.sched[int64(h)] = true
	}
}

// advance executes k blocks one by one. Boundaries at scheduled heights (and the
// last one) are observed by the oracles.
func (s *Sim) advance(k int64) {
	for i := int64(0); i < k; i++ {
		h := s.C.Height
		observe := s.sched[h] || i == k-1 || (s.ObserveEvery > 0 && h%s.ObserveEvery == 0)
		if observe && s.TraceSteps {
			var pre *chain.Snapshot
			s.C.StepHook = func(step string, before bool) {
				if s.EveryStep != nil {
					s.EveryStep(step, before)
				}
				if step == "node.BeginBlocker" {
					return
				}
				if before {
					pre = s.C.Snap()
				} else {
					post := s.C.Snap()
					for _, o := range s.Oracles {
						o.Step(s, step, pre, post)
					}
				}
			}
		} else if s.EveryStep != nil {
			s.C.StepHook = s.EveryStep
		}
		err := s.C.EndBlock()
		if s.EveryStep != nil {
			s.C.StepHook = s.EveryStep
		} else {
			s.C.StepHook = nil
		}
		if err != nil {
			s.liveness(err)
		}
		if observe {
			delete(s.sched, h)
			snap := s.C.Snap()
			s.labelBoundary(s.Last, snap)
			s.Last = snap
			s.resched(snap)
			for _, o := range s.Oracles {
				o.Boundary(s, snap)
				o.Invariant(s, s.C, snap)
			}
		}
		if err := s.C.BeginBlock(); err != nil {
			s.liveness(err)
		}
	}
	if k > 0 {
		s.Last = s.C.Snap()
	}
}

// labelBoundary classifies what the end-blockers of an observed height did.
func (s *Sim) labelBoundary(prev, cur *chain.Snapshot) {
	if prev == nil {
		return
	}
	for id, sh := range prev.Shards {
		n, ok := cur.Shards[id]
		if !ok {
			if sh.Status == 2 {
				s.Label("expired")
			} else {
				s.Label("shard-removed-unfinished")
			}
			continue
		}
		if n.OrderId != sh.OrderId {
			s.Label("rotated")
		}
		if n.Status == 5 && sh.Status != 5 {
			s.Label("timeout-reassigned")
		}
	}
	for id, o := range prev.Orders {
		if n, ok := cur.Orders[id]; !ok {
			if o.Status != 3 {
				s.Label("order-gave-up")
			}
		} else if n.Replica < o.Replica {
			s.Label("replica-reduced")
		}
	}
	for id := range prev.Metas {
		if _, ok := cur.Metas[id]; !ok {
			s.Label("model-expired")
		}
	}
	s.labelDebts(prev, cur)
}

func (s *Sim) labelDebts(prev, cur *chain.Snapshot) {
	for sp, d := range cur.Debts {
		p, ok := prev.Debts[sp]
		if !ok || d.Debt.Amount.GT(p.Debt.Amount) {
			s.Label("debt-created")
		} else if d.Debt.Amount.LT(p.Debt.Amount) {
			s.Label("debt-repaid")
		}
	}
	for sp := range prev.Debts {
		if _, ok := cur.Debts[sp]; !ok {
			s.Label("debt-repaid")
		}
	}
}

// HistHash identifies the executed history (actions with outcomes).
func (s *Sim) HistHash() string {
	bz, _ := json.Marshal(s.Hist)
	h := sha256.Sum256(bz)
	return hex.EncodeToString(h[:8])
}

// Summary renders the history compactly for evidence samples.
func (s *Sim) Summary() []string {
	out := make([]string, 0, len(s.Hist))
	for _, a := range s.Hist {
		out = append(out, a.String())
	}
	return out
}

func (a *Action) String() string {
	st := "ok"
	if !a.OK {
		st = "FAIL(" + short(a.Err) + ")"
		if len(st) > 90 {
			st = st[:90] + ")"
		}
	}
	base := fmt.Sprintf("h%d %s c=%d", a.H, a.Kind, a.Creator)
	switch a.Kind {
	case "advance":
		return fmt.Sprintf("h%d advance %d", a.H, a.Blocks)
	case "store":
		base += fmt.Sprintf(" owner=%d signer=%d gw=%d pay=%d data=%s commit=%q op=%d size=%d rep=%d dur=%d to=%d", a.Owner, a.Signer, a.PropProv, a.PayDid, tail(a.DataId), a.Commit, a.Op, a.Size, a.Replica, a.Duration, a.Timeout)
	case "complete", "cancel", "ready":
		base += fmt.Sprintf(" order=%d prov=%d size=%d", a.Order, a.MsgProv, a.Size)
	case "renew", "migrate":
		base += fmt.Sprintf(" data=%v dur=%d", tails(a.Data), a.Duration)
	case "terminate", "permission":
		base += fmt.Sprintf(" owner=%d signer=%d data=%s", a.Owner, a.Signer, tail(a.DataId))
	case "select":
		base += fmt.Sprintf(" count=%d size=%d ignore=%v", a.Count, a.Size, a.Ignore)
	case "install":
		base += fmt.Sprintf(" round=%d nodes=", a.Round)
		for _, n := range a.Nodes {
			base += fmt.Sprintf("{%d st=%d rep=%v role=%d alive=%d free=%d}", n.Acct, n.Status, n.Rep, n.Role, n.LastAlive, n.Total-n.Used)
		}
	case "seed":
		base += fmt.Sprintf(" apphash=%x", a.Seed)
	case "add_vstorage", "remove_vstorage":
		base += fmt.Sprintf(" size=%d", a.Size)
	case "node_reset":
		base += fmt.Sprintf(" status=%d tx=%v val=%d", a.Status, a.TxAddrs, a.Val)
	case "bank_send", "delegate", "undelegate", "redelegate":
		base += fmt.Sprintf(" target=%d amount=%d", a.Target, a.Amount)
	}
	if a.KidOver != "" {
		base += " kid=" + a.KidOver
	}
	if a.Tamper != "" {
		base += " tamper=" + a.Tamper
	}
	if a.Note != "" {
		base += " [" + a.Note + "]"
	}
	return base + " -> " + st
}

func tail(s string) string {
	if len(s) > 4 {
		return ".." + s[len(s)-4:]
	}
	return s
}

func tails(ss []string) []string {
	var o []string
	for _, s := range ss {
		o = append(o, tail(s))
	}
	return o
}
