package props

import (
	"saoverif/chain"

	ordertypes "github.com/SaoNetwork/sao/x/order/types"
	sdk "github.com/cosmos/cosmos-sdk/types"
)

// C06Oracle: each escrow account covers the liabilities the chain's own records state.
type C06Oracle struct {
	NopOracle
	MaxEscrowsNonZero int
	Shortfalls        map[string]int
}

func (o *C06Oracle) Name() string { return "C06" }

func decOr0(d sdk.Dec) sdk.Dec {
	if d.IsNil() {
		return sdk.ZeroDec()
	}
	return d
}

func intOr0(i sdk.Int) sdk.Int {
	if i.IsNil() {
		return sdk.ZeroInt()
	}
	return i
}

// Liabilities computes, from records only, what each escrow owes at the boundary of height h.
func Liabilities(sn *chain.Snapshot) (order, market, node, did sdk.Dec, records map[string]int) {
	order, market, node, did = sdk.ZeroDec(), sdk.ZeroDec(), sdk.ZeroDec(), sdk.ZeroDec()
	records = map[string]int{}
	h := sn.Height
	for _, o := range sn.Orders {
		if o.Operation != 3 && (o.Status == ordertypes.OrderPending || o.Status == ordertypes.OrderDataReady || o.Status == ordertypes.OrderInProgress) {
			order = order.Add(sdk.NewDecFromInt(intOr0(o.Amount.Amount)))
			records["order"]++
		}
	}
	for _, w := range sn.Workers {
		acc := decOr0(w.Reward.Amount).Add(decOr0(w.IncomePerSecond.Amount).MulInt64(h - w.LastRewardAt))
		if w.LastRewardAt == 0 && decOr0(w.IncomePerSecond.Amount).IsZero() {
			acc = decOr0(w.Reward.Amount)
		}
		market = market.Add(acc)
		records["market"]++
	}
	for _, sh := range sn.Shards {
		price := sdk.NewDecWithPrec(1, 6)
		ord, hasOrd := sn.Orders[sh.OrderId]
		if hasOrd && !ord.UnitPrice.Amount.IsNil() {
			price = ord.UnitPrice.Amount
		}
		switch sh.Status {
		case ordertypes.ShardCompleted:
			remaining := int64(sh.CreatedAt+sh.Duration) - h
			if remaining > 0 {
				market = market.Add(price.MulInt64(int64(sh.Size_)).MulInt64(remaining))
			}
			for _, ri := range sh.RenewInfos {
				market = market.Add(price.MulInt64(int64(sh.Size_)).MulInt64(int64(ri.Duration)))
			}
			records["market"]++
		case ordertypes.ShardWaiting:
			if hasOrd && ord.Status == ordertypes.OrderCompleted {
				market = market.Add(price.MulInt64(int64(sh.Size_)).MulInt64(int64(ord.Duration)))
				records["market"]++
			}
		}
	}
	for sp, p := range sn.Pledges {
		node = node.Add(sdk.NewDecFromInt(intOr0(p.TotalStoragePledged.Amount))).Add(sdk.NewDecFromInt(intOr0(p.TotalShardPledged.Amount)))
		claimable := decOr0(p.Reward.Amount)
		if sn.PoolFound && p.TotalStorage > 0 {
			claimable = claimable.Add(decOr0(sn.Pool.AccRewardPerByte.Amount).MulInt64(p.TotalStorage).Sub(decOr0(p.RewardDebt.Amount)))
		}
		if claimable.IsPositive() {
			node = node.Add(claimable)
		}
		records["node"]++
		_ = sp
	}
	for _, d := range sn.Debts {
		node = node.Sub(sdk.NewDecFromInt(intOr0(d.Debt.Amount)))
	}
	for _, b := range sn.Did.DidBalancesList {
		did = did.Add(sdk.NewDecFromInt(intOr0(b.Balance.Amount)))
		records["did"]++
	}
	return
}

func (o *C06Oracle) Invariant(s *Sim, c *chain.Chain, sn *chain.Snapshot) {
	lo, lm, ln, ld, recs := Liabilities(sn)
	nz := 0
	check := func(name string, liab sdk.Dec) {
		bal := sdk.NewDecFromInt(sn.Bal["mod:"+name])
		if bal.IsPositive() {
			nz++
		}
		tol := sdk.NewDec(int64(recs[name] + 1))
		if bal.Add(tol).LT(liab) {
			s.FailT("escrow-short", "", map[string]string{"escrow": name},
				"h=%d escrow %q holds %s but the chain's records say it owes %s (%d records, tolerance %s)", sn.Height, name, bal.TruncateInt(), liab, recs[name], tol)
		}
	}
	check("order", lo)
	check("market", lm)
	check("node", ln)
	check("did", ld)
	if nz > o.MaxEscrowsNonZero {
		o.MaxEscrowsNonZero = nz
	}
}

// AfterAction: the consequence rule - an entitled release must not fail for lack of escrowed funds.
func (o *C06Oracle) AfterAction(s *Sim, a *Action, pre, post *chain.Snapshot, res *chain.TxResult) {
	if res.OK {
		return
	}
	switch a.Kind {
	case "terminate", "cancel", "claim", "remove_vstorage":
		e := res.ErrString()
		if containsAny(e, "insufficient funds", "insufficient fund", "negative coin amount") {
			s.FailT("entitled-release-failed", "", map[string]string{"kind": a.Kind}, "%s failed for lack of escrowed funds: %s", a.Kind, e)
		}
	}
}

func containsAny(s string, subs ...string) bool {
	for _, x := range subs {
		if len(x) > 0 && len(s) >= len(x) {
			for i := 0; i+len(x) <= len(s); i++ {
				if s[i:i+len(x)] == x {
					return true
				}
			}
		}
	}
	return false
}
