package props

import (
	"encoding/base64"
	"encoding/json"
	"fmt"
	"os"
	"path/filepath"
	"sort"
	"sync"
)

// currentTest is the name of the running property test (one per process).
var currentTest string

// outDir is where this process writes stats and violation files.
func outDir() string {
	d := os.Getenv("VERIF_OUT")
	if d == "" {
		d = "/verif/.out/adhoc"
	}
	os.MkdirAll(d, 0o755)
	return d
}

func shardName() string {
	s := os.Getenv("VERIF_SHARD")
	if s == "" {
		s = "0"
	}
	return s
}

// infra aborts the process with exit status 2: harness trouble, never a verdict.
func infra(format string, args ...any) {
	fmt.Fprintf(os.Stderr, "INFRA: "+format+"\n", args...)
	flushStats()
	os.Exit(2)
}

func jsonUnmarshal(bz []byte, v any) error { return json.Unmarshal(bz, v) }

func violationPath() string {
	return filepath.Join(outDir(), fmt.Sprintf("violation-%s.json", shardName()))
}

func writeViolation(v *Violation) {
	bz, err := json.MarshalIndent(v, "", " ")
	if err != nil {
		infra("marshal violation: %v", err)
	}
	if err := os.WriteFile(violationPath(), bz, 0o644); err != nil {
		infra("write violation: %v", err)
	}
}

// hardExitViolation ends the process at once (used when a step hangs: the
// spinning goroutine cannot be stopped, so no shrinking is possible).
func hardExitViolation() {
	flushStats()
	fmt.Println("HANG-VIOLATION written to", violationPath())
	os.Exit(1)
}

// Stats is what one process reports about the cases it ran.
type Stats struct {
	Test        string            `json:"test"`
	Shard       string            `json:"shard"`
	Evaluations int               `json:"evaluations"`
	Nontrivial  map[string]bool   `json:"nontrivial"` // distinct history hashes satisfying the N rule
	Classes     map[string]int    `json:"classes"`
	Samples     []any             `json:"samples"`
	Excluded    map[string]int    `json:"excluded"`
	Aborted     map[string]int    `json:"aborted"`
	Extra       map[string]any    `json:"extra,omitempty"`
	mu          sync.Mutex
}

var stats = &Stats{Nontrivial: map[string]bool{}, Classes: map[string]int{}, Excluded: map[string]int{}, Aborted: map[string]int{}, Extra: map[string]any{}}

const maxSamples = 4

// Record adds one finished case.
func (st *Stats) Record(hash string, nontrivial bool, labels map[string]int, excluded map[string]int, sample func() any) {
	st.mu.Lock()
	defer st.mu.Unlock()
	st.Evaluations++
	for l := range labels {
		st.Classes[l]++
	}
	for k, n := range excluded {
		st.Excluded[k] += n
	}
	if nontrivial {
		if !st.Nontrivial[hash] {
			st.Nontrivial[hash] = true
			if len(st.Samples) < maxSamples && sample != nil {
				st.Samples = append(st.Samples, sample())
			}
		}
	}
}

func (st *Stats) Abort(reason string) {
	st.mu.Lock()
	defer st.mu.Unlock()
	st.Evaluations++
	if len(reason) > 80 {
		reason = reason[:80]
	}
	st.Aborted[reason]++
}

func flushStats() {
	stats.mu.Lock()
	defer stats.mu.Unlock()
	stats.Test = currentTest
	stats.Shard = shardName()
	type out struct {
		*Stats
		NontrivialList []string `json:"nontrivial_hashes"`
	}
	o := out{Stats: stats}
	for h := range stats.Nontrivial {
		o.NontrivialList = append(o.NontrivialList, h)
	}
	sort.Strings(o.NontrivialList)
	bz, err := json.Marshal(o)
	if err != nil {
		fmt.Fprintln(os.Stderr, "stats marshal:", err)
		return
	}
	os.WriteFile(filepath.Join(outDir(), fmt.Sprintf("stats-%s.json", shardName())), bz, 0o644)
}

func jsonMarshal(v any) ([]byte, error) { return json.Marshal(v) }

func tierThorough() bool { return os.Getenv("VERIF_TIER") == "thorough" }

func base64Std(b []byte) string { return base64.StdEncoding.EncodeToString(b) }
