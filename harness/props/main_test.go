package props

import (
	"encoding/json"
	"flag"
	"fmt"
	"os"
	"testing"

	"saoverif/replica"

	"pgregory.net/rapid"
)

var replayFile = flag.String("replay", "", "violation/replay JSON to re-execute without the generator")

func TestMain(m *testing.M) {
	if dir := os.Getenv("VERIF_REPLICA"); dir != "" {
		// child process of an L3 test: serve ABCI requests on stdin/stdout
		replica.Serve(dir)
		os.Exit(0)
	}
	flag.Parse()
	code := m.Run()
	flushStats()
	if baseWorld != nil {
		baseWorld.Close()
	}
	for _, w := range cfgWorlds {
		w.Close()
	}
	os.Exit(code)
}

// replayers maps a test name to the function that re-executes a recorded history
// under the same oracles, without rapid.
var replayers = map[string]func(t TB, v *Violation){}

type replayT struct{ t *testing.T }

type replayFailure struct{ msg string }

func (r replayT) Fatalf(format string, args ...any) {
	panic(replayFailure{fmt.Sprintf(format, args...)})
}
func (r replayT) Logf(format string, args ...any) { r.t.Logf(format, args...) }

// TestReplay re-executes one recorded history. Exit status 1 + violation file when it still violates.
func TestReplay(t *testing.T) {
	if *replayFile == "" {
		t.Skip("no -replay file")
	}
	bz, err := os.ReadFile(*replayFile)
	if err != nil {
		infra("read replay: %v", err)
	}
	var v Violation
	if err := json.Unmarshal(bz, &v); err != nil {
		infra("parse replay: %v", err)
	}
	fn := replayers[v.Test]
	if fn == nil {
		infra("no replayer for test %q", v.Test)
	}
	currentTest = v.Test
	defer func() {
		if r := recover(); r != nil {
			if rf, ok := r.(replayFailure); ok {
				fmt.Println("REPLAY-VIOLATES:", rf.msg)
				t.Fail()
				return
			}
			panic(r)
		}
	}()
	fn(replayT{t}, &v)
	fmt.Println("REPLAY-HOLDS")
}

// replayHistory applies recorded actions to a fresh Sim (outcome fields are recomputed).
func replayHistory(s *Sim, hist []*Action) {
	aborted := RunCase(func() {
		for _, a := range hist {
			b := *a
			b.OK, b.Err, b.Note = false, "", ""
			s.Do(&b)
		}
	})
	if aborted != "" {
		fmt.Println("REPLAY-ABORTED:", aborted)
	}
}

// runRapid runs prop under rapid; all randomness comes from rapid's flags (-rapid.seed etc.).
func runRapid(t *testing.T, name string, prop func(*rapid.T)) {
	currentTest = name
	defer func() {
		if t.Failed() {
			minimizeViolation()
		}
	}()
	rapid.Check(t, prop)
}
