package props

import (
	"encoding/json"
	"fmt"
	"os"
	"path/filepath"
	"strings"
	"testing"
	"time"

	"saoverif/chain"
	"saoverif/replica"

	"github.com/SaoNetwork/sao/app"
	nodetypes "github.com/SaoNetwork/sao/x/node/types"
	ordertypes "github.com/SaoNetwork/sao/x/order/types"
	"pgregory.net/rapid"
)

// l3Driver couples a cluster of replica processes with the shadow simulation. Every decision
// (messages, block advance, non-consensus traffic, restarts, export) is an Action recorded in
// the shadow's history, so a replay needs no generator.
type l3Driver struct {
	s        *Sim
	cl       *Cluster
	cfg      *LifeCfg
	prop     string
	pending  []*Action // noise to apply to the next delivered tx
	restarts int
	txAfterRestart int
	okTxs    int
	labels   map[string]int
	every    bool // C03: restart after every committed block
	exported bool
	kinds    int
	crossed  bool
	blockDirty     bool  // a transaction was delivered into the currently open block
	restartPending []int // replicas to SIGKILL + restart at the next block boundary
	sidGen         int   // key generations handed out to did:sid rotations
	govProposals   int
	jumped         bool // the one long advance across an expiry has been made
	madeValidator  map[int]bool
	cursorDone     bool
	params0        string // node parameters at the start (to label applied governance changes)
	timeJump bool        // the next block's header time is the wall clock
}

type confOracle struct {
	NopOracle
	d *l3Driver
}

func (confOracle) Name() string { return "conformance" }

// Boundary: the custom stores of the L2 shadow equal those of replica 0 after the same block.
func (c confOracle) Boundary(s *Sim, sn *chain.Snapshot) {
	d := c.d
	if d.exported {
		return
	}
	kv := replica.DumpKVCtx(s.C.Ctx(), s.W.App.GetKey)
	mine := replica.HashKV(kv)
	rs := d.cl.call(d.cl.Reps[0], &replica.Req{Op: "kv"})
	if rs.KVHash != mine {
		full := d.cl.call(d.cl.Reps[0], &replica.Req{Op: "kv", Full: true})
		missing, extra, changed := kvDiff(full.KV, kv)
		s.FailT("l1-l2-state-mismatch", "", nil, "h=%d the L2 driver's storage-module state differs from the ABCI replica's: only on replica %v, only on L2 %v, different %v", sn.Height, head(missing), head(extra), head(changed))
	}
	d.labels["conformance-boundaries"]++
}

func newL3(t TB, prop string, names []string) *l3Driver {
	d := &l3Driver{cfg: DefaultLifeCfg(), labels: map[string]int{}, prop: prop}
	s := newSim(t, prop, false, confOracle{d: d})
	s.C.Full = true
	d.s = s
	d.cfg.Providers = []int{2, 3, 4, 5}
	d.cfg.MaxData = 6
	d.cl = NewCluster(s, names)
	d.cl.ShadowSync()
	s.OpenFirstBlock()
	d.cl.Begin(nil)
	d.params0 = s.W.App.NodeKeeper.GetParams(s.C.Ctx()).String()
	return d
}

func (d *l3Driver) close() { d.cl.Close() }

func (d *l3Driver) fail(rule string, trig map[string]string, format string, args ...any) {
	d.s.FailT(rule, "", trig, format, args...)
}

// apply executes one recorded step.
func (d *l3Driver) apply(a *Action) {
	switch a.Kind {
	case "advance":
		n := a.Blocks
		if n > 50 {
			// long stretches of empty blocks: replicas are still compared with each other after every
			// block, the L2 shadow follows block by block, but snapshots / conformance dumps / exports
			// are taken at the last block only
			f := NewAction("advance", 0)
			f.Blocks, f.H, f.OK = n-1, d.cl.Height, true
			f.Extra = map[string]string{"fast": "1"}
			d.s.Hist = append(d.s.Hist, f)
			if len(d.restartPending) > 0 || d.every {
				d.nextBlock() // pending restarts happen at an ordinary block boundary
				n--
				f.Blocks--
			}
			d.fastBlocks(n - 1)
			n = 1
		}
		for i := int64(0); i < n; i++ {
			d.nextBlock()
		}
	case "noise", "restart", "export_reinit", "jump_time":
		a.H = d.cl.Height
		a.OK = true
		d.s.Hist = append(d.s.Hist, a)
		switch a.Kind {
		case "noise":
			if a.Extra["op"] == "simulate-next" || a.Extra["op"] == "check-next" {
				d.pending = append(d.pending, a)
			} else {
				d.noiseNow(a)
			}
		case "restart":
			if a.Extra["every"] == "1" {
				d.every = true
			} else {
				d.restartPending = append(d.restartPending, a.Target)
			}
		case "jump_time":
			d.timeJump = true
		case "export_reinit":
			d.exportReinit()
		}
	default:
		d.do(a)
	}
}

func (d *l3Driver) noiseTargets(a *Action) []*replica.Client {
	if a.Target < 0 {
		return d.cl.Reps
	}
	return []*replica.Client{d.cl.Reps[a.Target]}
}

func (d *l3Driver) noiseNow(a *Action) {
	for _, r := range d.noiseTargets(a) {
		switch a.Extra["op"] {
		case "query":
			d.cl.call(r, &replica.Req{Op: "query", Path: "/store/node/key", Data: []byte("Pool/value/")})
		case "simulate-delegate":
			x := NewAction("delegate", a.Creator)
			x.Target, x.Amount = a.Val, a.Amount
			d.cl.call(r, &replica.Req{Op: "simulate", Tx: d.cl.SignAction(x)})
		case "simulate-only":
			// a storage transaction that is simulated (gas estimation) and never delivered
			var x Action
			if err := json.Unmarshal([]byte(a.Extra["inner"]), &x); err == nil {
				d.cl.call(r, &replica.Req{Op: "simulate", Tx: d.cl.SignAction(&x)})
			}
		}
	}
	d.labels["noise-"+a.Extra["op"]]++
}

// do executes one message action on the replicas and the shadow.
func (d *l3Driver) do(a *Action) {
	if a.Kind == "bind_sid" && a.Extra["straddle"] == "1" {
		a.Ts = uint64(d.cl.Time.Unix()) - 899
	}
	tx := d.cl.SignAction(a)
	for _, n := range d.pending {
		for _, r := range d.noiseTargets(n) {
			if n.Extra["op"] == "simulate-next" {
				d.cl.call(r, &replica.Req{Op: "simulate", Tx: tx})
			} else {
				d.cl.call(r, &replica.Req{Op: "check", Tx: tx})
			}
		}
		d.labels["noise-"+n.Extra["op"]]++
	}
	d.pending = nil
	var outs []*chain.TxOut
	if a.Extra["straddle"] == "1" {
		outs = d.straddle(tx, a.Creator)
	} else {
		outs = d.cl.Deliver(tx, a.Creator, nil)
	}
	res := d.s.Do(a)
	d.blockDirty = true
	if res.OK {
		d.okTxs++
	}
	if a.Kind == "did_update" || a.Kind == "report_faults" {
		if res.OK {
			d.labels[a.Kind+"+"]++
		} else {
			d.labels[a.Kind+"-:"+short(res.ErrString())]++
		}
	}
	if d.restarts > 0 {
		d.txAfterRestart++
	}
	// driver conformance: the L2 shadow and the real ABCI path agree on the outcome
	for i, o := range outs {
		if o != nil && (o.Code == 0) != res.OK {
			d.fail("l1-l2-outcome-mismatch", map[string]string{"kind": a.Kind}, "%s: replica %s answered code %d (%s) but the L2 driver says ok=%v (%s)", a.Kind, d.cl.Names[i], o.Code, short(o.Log), res.OK, short(res.ErrString()))
		}
	}
	d.compareTx(a, outs)
}

func (d *l3Driver) compareTx(a *Action, outs []*chain.TxOut) {
	if len(outs) < 2 || outs[0] == nil || outs[1] == nil {
		return
	}
	switch d.prop {
	case "C01":
		if diff := equalOut(outs[0], outs[1]); diff != "" {
			d.fail("replica-divergence", map[string]string{"what": "tx-result", "kind": a.Kind, "straddle": a.Extra["straddle"]}, "h=%d %s: replicas A and B disagree on the transaction result: %s", d.cl.Height, a.Kind, diff)
		}
	case "C03":
		if diff := equalOut(outs[0], outs[1]); diff != "" {
			d.fail("restart-divergence", map[string]string{"what": "tx-result", "kind": a.Kind}, "h=%d %s after %d restart(s): uninterrupted replica U and restarted replica R disagree: %s", d.cl.Height, a.Kind, d.restarts, diff)
		}
	case "C18":
		if (outs[0].Code == 0) != (outs[1].Code == 0) {
			d.fail("continuation-differs", map[string]string{"kind": a.Kind}, "h=%d %s: original answered code %d (%s), re-initialised chain code %d (%s)", d.cl.Height, a.Kind, outs[0].Code, short(outs[0].Log), outs[1].Code, short(outs[1].Log))
		}
	}
}

func (d *l3Driver) compareBlock(h int64, hashes [][]byte, events []string) {
	if len(hashes) < 2 || hashes[1] == nil {
		return
	}
	switch d.prop {
	case "C01", "C03":
		rule, who := "replica-divergence", "replicas A and B"
		if d.prop == "C03" {
			rule, who = "restart-divergence", fmt.Sprintf("uninterrupted U and R after %d restart(s)", d.restarts)
		}
		if events[0] != events[1] {
			d.fail(rule, map[string]string{"what": "end-block"}, "h=%d EndBlock responses of %s differ: %q vs %q", h, who, short(events[0]), short(events[1]))
		}
		if string(hashes[0]) != string(hashes[1]) {
			d.fail(rule, map[string]string{"what": "app-hash"}, "h=%d application state hashes of %s differ: %x vs %x", h, who, hashes[0], hashes[1])
		}
	case "C18":
		d.compareRoundTrip(fmt.Sprintf("after block %d", h))
	}
}

// straddle delivers tx to replica 0 now and to the others >= 2.1 s later (wall-clock arm).
func (d *l3Driver) straddle(tx []byte, creator int) []*chain.TxOut {
	outs := make([]*chain.TxOut, len(d.cl.Reps))
	rs := d.cl.call(d.cl.Reps[0], &replica.Req{Op: "deliver", Tx: tx})
	outs[0] = rs.Tx
	time.Sleep(2100 * time.Millisecond)
	for i := 1; i < len(d.cl.Reps); i++ {
		rs := d.cl.call(d.cl.Reps[i], &replica.Req{Op: "deliver", Tx: tx})
		outs[i] = rs.Tx
	}
	d.cl.Seq[creator]++
	d.labels["wall-clock-straddle"]++
	return outs
}

func (d *l3Driver) nextBlock() {
	hashes, events := d.cl.End(nil)
	d.compareBlock(d.cl.Height, hashes, events)
	d.cl.ShadowSync()
	if d.timeJump {
		now := time.Now().UTC()
		d.cl.Time = now.Add(-5 * time.Second)
		// the block being closed keeps its header time; the jump shows in the header of the next one
		d.s.C.NextTime, d.s.C.NextTimeSet = now, true
		d.timeJump = false
	}
	adv := NewAction("advance", 0)
	adv.Blocks = 1
	d.s.Do(adv)
	if d.govProposals > 0 {
		cur := d.s.W.App.NodeKeeper.GetParams(d.s.C.Ctx()).String()
		if d.params0 != "" && cur != d.params0 {
			d.labels["gov-param-applied"]++
			d.params0 = cur
		}
	}
	if d.every {
		d.restartPending = append(d.restartPending, 1)
	}
	for _, i := range d.restartPending {
		d.cl.Restart(i)
		d.restarts++
		d.labels["restart"]++
	}
	d.restartPending = nil
	d.blockDirty = false
	d.cl.Begin(nil)
}

// fastBlocks runs k empty blocks: the replicas loop inside their own processes (concurrently), then
// the shadow follows block by block with the replicas' application hashes as header seeds. The
// replicas are compared with each other for every block; the shadow is not observed (no snapshot,
// no oracle boundary, no conformance dump, no export) until the caller's next ordinary block.
func (d *l3Driver) fastBlocks(k int64) {
	if k <= 0 {
		return
	}
	// in chunks: one replica call stays far below the call timeout also on a busy machine
	for k > 400 {
		d.fastBlocks(400)
		k -= 400
	}
	h0 := d.cl.Height
	hashes, evs := d.cl.EmptyBlocks(k)
	for b := int64(0); b < k; b++ {
		if len(hashes) > 1 && d.prop != "C18" {
			var hs [][]byte
			var es []string
			for r := range hashes {
				if int64(len(hashes[r])) <= b {
					infra("replica %d returned %d of %d blocks", r, len(hashes[r]), k)
				}
				hs = append(hs, hashes[r][b])
				es = append(es, fmt.Sprintf("%x", evs[r][b]))
			}
			d.compareBlock(h0+b, hs, es)
		}
		if err := d.s.C.EndBlock(); err != nil {
			d.s.liveness(err)
		}
		d.s.C.NextSeed, d.s.C.NextSeedSet = hashes[0][b], true
		if err := d.s.C.BeginBlock(); err != nil {
			d.s.liveness(err)
		}
	}
	d.blockDirty = false
}

// setup registers providers and payment addresses through real transactions.
func (d *l3Driver) setup() {
	for _, p := range d.cfg.Providers {
		d.apply(NewAction("node_create", p))
		r := NewAction("node_reset", p)
		r.Status = StatusFull
		d.apply(r)
		v := NewAction("add_vstorage", p)
		v.Size = 1_000_000_000
		d.apply(v)
	}
	for _, o := range []int{8, 9, 10} {
		a := NewAction("set_payaddr", o)
		a.Owner = o
		d.apply(a)
	}
	adv := NewAction("advance", 0)
	adv.Blocks = 1
	d.apply(adv)
}

// genStep draws one history step.
func (d *l3Driver) genStep(t *rapid.T) *Action {
	s, cfg := d.s, d.cfg
	var a *Action
	switch rapid.IntRange(0, 25).Draw(t, "step") {
	case 0, 1, 2:
		a = cfg.GenStoreNew(t, s)
		if a != nil {
			a.Timeout = int32(rapid.IntRange(2, 6).Draw(t, "shortTimeout"))
		}
	case 3, 4, 5:
		a = cfg.GenComplete(t, s)
	case 6:
		a = cfg.GenCancel(t, s)
	case 7:
		a = cfg.GenTerminate(t, s)
	case 8:
		a = cfg.GenRenew(t, s)
		if a != nil && rapid.IntRange(0, 2).Draw(t, "unknownIds") == 0 {
			a.Data = append(a.Data, genUnknownIds(t)...)
		}
	case 9:
		a = cfg.GenMigrate(t, s)
		if a == nil && rapid.Bool().Draw(t, "migrateNothing") {
			a = NewAction("migrate", rapid.SampledFrom(cfg.Providers).Draw(t, "sp"))
		}
		if a != nil && rapid.IntRange(0, 2).Draw(t, "unknownIds") == 0 {
			a.Data = append(a.Data, genUnknownIds(t)...)
		}
	case 10:
		a = cfg.GenClaim(t, s)
	case 11:
		a = NewAction(rapid.SampledFrom([]string{"delegate", "delegate", "undelegate"}).Draw(t, "stk"), rapid.SampledFrom([]int{0, 1, 3, 4, 8, 9}).Draw(t, "delegator"))
		a.Target = rapid.IntRange(0, 1).Draw(t, "val")
		a.Amount = rapid.SampledFrom([]int64{1000, 100_000_000, 120_000_000, 9_000_000_000_000_000}).Draw(t, "amount")
	case 12:
		a = cfg.GenStoreUpdate(t, s)
	case 13:
		a = NewAction("bind_sid", rapid.SampledFrom([]int{7, 11}).Draw(t, "sidAcct"))
		a.Ts = uint64(d.cl.Time.Unix()) - uint64(rapid.IntRange(0, 1200).Draw(t, "age"))
	case 14:
		a = d.genFault()
	case 15, 16:
		a = d.residueArm(t)
	case 17, 18:
		a = d.sidRotationArm(t)
	case 19:
		a = d.govParamArm(t)
	case 20:
		a = d.genCapacity(t)
	case 23:
		// a storage node becomes a validator operator (once per account): the self-delegation is the
		// first delegation of a validator that has no shares yet
		n := rapid.SampledFrom([]int{3, 4}).Draw(t, "newValidator")
		if !d.madeValidator[n] {
			if d.madeValidator == nil {
				d.madeValidator = map[int]bool{}
			}
			d.madeValidator[n] = true
			a = NewAction("create_validator", n)
			a.Amount = rapid.SampledFrom([]int64{1, 1000, 100_000_000}).Draw(t, "selfBond")
			d.labels["create-validator"]++
		}
	case 24:
		a = d.cursorArm(t)
	case 21:
		a = d.genSimulateOnly(t)
	case 22:
		a = d.genExpiryJump(t)
	}
	if a == nil {
		a = NewAction("advance", 0)
		a.Blocks = int64(rapid.SampledFrom([]int{1, 1, 1, 2, 3, 7, 22}).Draw(t, "blocks"))
	}
	return a
}

// residueArm aims at values that live in process memory between the two hooks of a staking pair:
// a node's delegation is put right below the share threshold, then a staking transaction by that
// node fails after the first hook (delivered, or only simulated on the replicas that serve
// non-consensus traffic), one replica may be restarted, and then another delegator modifies an
// existing delegation on the same validator. The steps are applied here; the last one is returned.
func (d *l3Driver) residueArm(t *rapid.T) *Action {
	s := d.s
	w := &c20World{nodes: []int{3, 4}, thirds: []int{8, 9}}
	n := rapid.SampledFrom(w.nodes).Draw(t, "residueNode")
	v := rapid.IntRange(0, len(s.W.ValAddrs)-1).Draw(t, "residueVal")
	p := rapid.SampledFrom(w.thirds).Draw(t, "residueThird")
	// the other delegator needs an existing delegation (so that its next operation is a *modification*)
	if _, ok := s.W.App.StakingKeeper.GetDelegation(s.C.Ctx(), s.acct(p).Addr, s.W.ValAddrs[v]); !ok {
		x := NewAction("delegate", p)
		x.Target, x.Amount = v, int64(rapid.IntRange(1000, 5000).Draw(t, "thirdStake"))
		d.apply(x)
	}
	// the node's own stake right around the threshold
	x := NewAction("delegate", n)
	x.Target = v
	x.Amount = w.aimAmount(t, s, n, v, true)
	d.apply(x)
	// a staking transaction of the node that stops after the first hook
	switch rapid.IntRange(0, 2).Draw(t, "residueHow") {
	case 0:
		f := NewAction("delegate", n)
		f.Target, f.Amount = v, 9_000_000_000_000_000
		d.apply(f)
	default:
		nz := NewAction("noise", n)
		nz.Target = -1
		if d.prop == "C01" {
			nz.Target = 0
		}
		nz.Extra = map[string]string{"op": "simulate-delegate"}
		nz.Val, nz.Amount = v, rapid.SampledFrom([]int64{1000, 9_000_000_000_000_000}).Draw(t, "simAmount")
		d.apply(nz)
	}
	if d.prop == "C03" && !d.every && rapid.Bool().Draw(t, "residueRestart") {
		r := NewAction("restart", 0)
		r.Target = 1
		d.apply(r)
		d.apply(adv1())
	}
	d.labels["residue-arm"]++
	// the other delegator modifies its delegation
	y := NewAction(rapid.SampledFrom([]string{"delegate", "undelegate"}).Draw(t, "thirdOp"), p)
	y.Target, y.Amount = v, int64(rapid.IntRange(1, 900).Draw(t, "thirdAmount"))
	return y
}

// cursorArm: the super-node round-robin cursor ends up equal to the number of super nodes (two super
// nodes, one selection, one of them loses the role), a Store that reads the cursor fails, the set
// grows back, one replica may be restarted, and the next Store selects again.
func (d *l3Driver) cursorArm(t *rapid.T) *Action {
	s := d.s
	if d.cursorDone {
		return nil
	}
	d.cursorDone = true
	v := 0
	for _, n := range []int{3, 4} {
		x := NewAction("delegate", n)
		x.Target, x.Amount = v, 250_000_000
		d.apply(x)
	}
	supers := 0
	for _, n := range []int{3, 4} {
		if nd, ok := s.Last.Nodes[s.bech(n)]; ok && nd.Role == nodetypes.NODE_SUPER {
			supers++
		}
	}
	if supers < 2 {
		return nil
	}
	d.labels["cursor-arm"]++
	one := func(label string) *Action {
		a := d.cfg.GenStoreNew(t, s)
		if a != nil {
			a.Replica, a.Size, a.Timeout = 1, 1000, 6
		}
		return a
	}
	if a := one("first"); a != nil {
		d.apply(a) // one selection: the cursor moves on
	}
	// one super node leaves the set
	u := NewAction("undelegate", 4)
	u.Target, u.Amount = v, 250_000_000
	d.apply(u)
	// a Store that runs the selection and then fails (no provider can hold it)
	if a := one("failing"); a != nil {
		a.Size = 1 << 40
		d.apply(a)
	}
	// the node comes back
	b := NewAction("delegate", 4)
	b.Target, b.Amount = v, 250_000_000
	d.apply(b)
	if d.prop == "C03" && !d.every && rapid.Bool().Draw(t, "cursorRestart") {
		r := NewAction("restart", 0)
		r.Target = 1
		d.apply(r)
		d.apply(adv1())
	}
	return one("after")
}

// sidRotationArm drives one of two did:sid identities towards a key rotation (MsgUpdate): the first
// account creates the identity, a second account is bound to it (a rotation must drop at least one
// account and keep the payment account), then the keys are rotated. Missing steps are applied here;
// the rotation itself is returned. Rotated identities carry version lists and past seeds.
func (d *l3Driver) sidRotationArm(t *rapid.T) *Action {
	s := d.s
	pr := [][2]int{{7, 0}, {11, 1}}[rapid.IntRange(0, 1).Draw(t, "sidPair")]
	now := uint64(d.cl.Time.Unix())
	di := -1
	for i, r := range s.Dids {
		if r.Kind == "sid" && r.Acct == pr[0] {
			di = i
		}
	}
	if di < 0 {
		a := NewAction("bind_sid", pr[0])
		a.Ts = now - uint64(rapid.IntRange(0, 600).Draw(t, "age"))
		return a
	}
	second := fmt.Sprintf("c%d", pr[1])
	bound := false
	for _, l := range s.Last.Did.AccountListList {
		if l.Did == s.Dids[di].Did {
			for _, ad := range l.AccountDids {
				if ad == acctDid(second) {
					bound = true
				}
			}
		}
	}
	if !bound {
		b := NewAction("bind_sid", pr[0])
		b.Owner, b.Target, b.Ts = di, pr[1], now
		d.apply(b)
	}
	d.sidGen++
	u := NewAction("did_update", pr[0])
	u.Owner, u.Ts = di, now
	u.Extra = map[string]string{"gen": fmt.Sprint(d.sidGen), "pastSeed": fmt.Sprintf("seed-%d-%d", di, d.sidGen), "keep": fmt.Sprintf("c%d", pr[0]), "remove": second}
	if rapid.IntRange(0, 5).Draw(t, "reuseSeed") == 0 {
		u.Extra["pastSeed"] = "seed-shared" // the same past seed for several identities / rotations
	}
	d.labels["sid-rotation-arm"]++
	return u
}

var govChanges = [][2]string{
	{"OfflineTriggerHeight", `"3"`}, {"OfflineTriggerHeight", `"3"`}, {"OfflineTriggerHeight", `"25"`},
	{"ShareThreshold", `"0.300000000000000000"`}, {"ShareThreshold", `"0.020000000000000000"`},
	{"VstorageThreshold", `"1000000"`}, {"BlockReward", `{"denom":"sao","amount":"7000"}`},
	{"MaxPenalty", `"11"`}, {"PenaltyBase", `"2"`}, {"AdjustmentPeriod", `"11"`},
}

// govParamArm: a parameter of the node module is changed by a governance proposal (submitted and
// voted through real transactions; it passes three blocks later and is written by x/params, not
// through the module's keeper). The last vote is returned.
func (d *l3Driver) govParamArm(t *rapid.T) *Action {
	if d.govProposals >= 2 {
		return nil
	}
	d.govProposals++
	ch := rapid.SampledFrom(govChanges).Draw(t, "paramChange")
	p := NewAction("gov_param", 0)
	p.Amount = 1000
	p.Extra = map[string]string{"subspace": "node", "key": ch[0], "value": ch[1]}
	if ch[0] == "BlockReward" {
		p.Extra["value"] = strings.Replace(ch[1], "sao", d.s.W.Cfg.Denom, 1)
	}
	d.apply(p)
	if !p.OK {
		d.labels["gov-proposal-rejected"]++
		return nil
	}
	v := NewAction("gov_vote", 0)
	v.Order = p.Order
	d.apply(v)
	v2 := NewAction("gov_vote", 1)
	v2.Order = p.Order
	d.labels["gov-param-arm"]++
	return v2
}

// genSimulateOnly: a renewal, update or completion is simulated on one or all replicas and never delivered.
func (d *l3Driver) genSimulateOnly(t *rapid.T) *Action {
	s, cfg := d.s, d.cfg
	var x *Action
	switch rapid.IntRange(0, 2).Draw(t, "simulated") {
	case 0:
		x = cfg.GenRenew(t, s)
	case 1:
		x = cfg.GenStoreUpdate(t, s)
	default:
		x = cfg.GenComplete(t, s)
	}
	if x == nil {
		return nil
	}
	b, err := json.Marshal(x)
	if err != nil {
		return nil
	}
	a := NewAction("noise", 0)
	a.Target = rapid.SampledFrom([]int{-1, 0, 0, 1}).Draw(t, "simTarget")
	if a.Target >= len(d.cl.Reps) {
		a.Target = 0
	}
	a.Extra = map[string]string{"op": "simulate-only", "inner": string(b), "what": x.Kind}
	return a
}

// genExpiryJump: once per case, run the chain across the nearest scheduled end of a shard's or a
// model's paid term (thousands of blocks: whatever process memory holds meets the expiry handling).
func (d *l3Driver) genExpiryJump(t *rapid.T) *Action {
	if d.jumped || d.prop == "C18" || rapid.IntRange(0, 4).Draw(t, "jumpNow") != 0 {
		return nil
	}
	// first, non-consensus traffic that touches the schedules: a renewal (it moves the model's end of
	// life) is simulated on one replica, or on all of them followed by a restart of the second one
	x := d.cfg.GenRenew(t, d.s)
	if x == nil {
		return nil
	}
	best := int64(0)
	for k, ids := range d.s.Last.ExpData {
		for _, id := range ids {
			for _, r := range x.Data {
				if id == r && int64(k) > best {
					best = int64(k)
				}
			}
		}
	}
	h := d.s.C.Height
	if best <= h || best-h > 13000 {
		return nil
	}
	b, err := json.Marshal(x)
	if err != nil {
		return nil
	}
	n := NewAction("noise", 0)
	n.Target = rapid.SampledFrom([]int{0, -1}).Draw(t, "simTarget")
	n.Extra = map[string]string{"op": "simulate-only", "inner": string(b), "what": x.Kind}
	d.apply(n)
	if n.Target < 0 && len(d.cl.Reps) > 1 {
		r := NewAction("restart", 0)
		r.Target = 1
		d.apply(r)
	}
	d.jumped = true
	d.labels["expiry-jump"]++
	a := NewAction("advance", 0)
	a.Blocks = best - h + int64(rapid.IntRange(1, 3).Draw(t, "past"))
	return a
}

// genUnknownIds: several data ids nobody stored (requests that list them answer per id; the order
// of such per-id answers must not depend on the process).
func genUnknownIds(t *rapid.T) []string {
	n := rapid.IntRange(2, 7).Draw(t, "nUnknown")
	var out []string
	for i := 0; i < n; i++ {
		out = append(out, DataIdN(900+rapid.IntRange(0, 40).Draw(t, "unknownId")))
	}
	return out
}

// genCapacity: a provider withdraws capacity (aimed at everything that is free, which for a provider
// without shards leaves a pledge record without collateral) or adds some.
func (d *l3Driver) genCapacity(t *rapid.T) *Action {
	s := d.s
	p := rapid.SampledFrom(d.cfg.Providers).Draw(t, "sp")
	pl, ok := s.Last.Pledges[s.bech(p)]
	if !ok {
		return nil
	}
	if pl.TotalStorage == 0 || rapid.IntRange(0, 3).Draw(t, "add") == 0 {
		a := NewAction("add_vstorage", p)
		a.Size = uint64(rapid.SampledFrom([]int{1_000_000, 10_000_000, 1_000_000_000}).Draw(t, "size"))
		return a
	}
	free := pl.TotalStorage - pl.UsedStorage
	unit := int64(1_000_000)
	a := NewAction("remove_vstorage", p)
	sz := rapid.SampledFrom([]int64{free / unit * unit, free, unit, pl.TotalStorage}).Draw(t, "size")
	if sz <= 0 {
		sz = unit
	}
	a.Size = uint64(sz)
	d.labels["capacity-withdrawal-tried"]++
	return a
}

// genFault: a fishman (designated in the base genesis) reports a fault on a stored shard.
func (d *l3Driver) genFault() *Action {
	s := d.s
	for _, sh := range sortedShards(s.Last) {
		if sh.Status == ordertypes.ShardCompleted {
			if o, ok := s.Last.Orders[sh.OrderId]; ok {
				a := NewAction("report_faults", 5)
				a.Target = s.acctOf(sh.Sp)
				a.Faults = []FaultEntry{{DataId: o.DataId, OrderId: o.Id, ShardId: sh.Id, CommitId: "none", Provider: a.Target}}
				return a
			}
		}
	}
	return nil
}

func genNoise(t *rapid.T, target int) *Action {
	a := NewAction("noise", 0)
	a.Target = target
	op := rapid.SampledFrom([]string{"simulate-next", "check-next", "query", "simulate-delegate", "simulate-delegate"}).Draw(t, "noise")
	a.Extra = map[string]string{"op": op}
	if op == "simulate-delegate" {
		a.Creator = rapid.SampledFrom([]int{0, 1, 3, 8}).Draw(t, "simDelegator")
		a.Val = rapid.IntRange(0, 1).Draw(t, "simVal")
		a.Amount = rapid.SampledFrom([]int64{1000, 9_000_000_000_000_000}).Draw(t, "simAmount")
	}
	return a
}

func (d *l3Driver) finish(nontrivial bool, aborted string) {
	s := d.s
	if aborted != "" {
		stats.Abort(aborted)
		return
	}
	for k, v := range d.labels {
		s.Labels[k] += v
	}
	stats.Record(s.HistHash(), nontrivial, s.Labels, s.Excluded, func() any { return l3Summary(s) })
}

func l3Summary(s *Sim) []string {
	var out []string
	for _, a := range s.Hist {
		switch a.Kind {
		case "noise":
			out = append(out, fmt.Sprintf("h%d noise on replica %d: %s", a.H, a.Target, a.Extra["op"]))
		case "restart":
			out = append(out, fmt.Sprintf("h%d SIGKILL + restart replica %d", a.H, a.Target))
		case "export_reinit":
			out = append(out, fmt.Sprintf("h%d export genesis, re-initialise a fresh chain, continue on both", a.H))
		case "jump_time":
			out = append(out, fmt.Sprintf("h%d block time := wall clock", a.H))
		default:
			out = append(out, a.String())
		}
	}
	return out
}

// ---------------- C01 ----------------

func c01Property(t *rapid.T) {
	d := newL3(t, "C01", []string{"A", "B"})
	defer d.close()
	aborted := RunCase(func() {
		d.setup()
		n := rapid.IntRange(3, 30).Draw(t, "steps")
		doStraddle := rapid.IntRange(0, 11).Draw(t, "straddleCase") == 0
		for i := 0; i < n; i++ {
			if rapid.IntRange(0, 2).Draw(t, "noisy") == 0 {
				d.apply(genNoise(t, 0)) // replica A only
			}
			d.apply(d.genStep(t))
			if doStraddle && i == n/2 {
				// wall-clock arm: block time = the real clock, proof timestamp 899 s old; B executes >= 2.1 s after A
				d.apply(NewAction("jump_time", 0))
				d.apply(adv1())
				a := NewAction("bind_sid", 6)
				a.Extra = map[string]string{"straddle": "1"}
				d.apply(a)
			}
		}
		adv := NewAction("advance", 0)
		adv.Blocks = 1
		d.apply(adv)
	})
	noise := 0
	for k, v := range d.labels {
		if len(k) > 6 && k[:6] == "noise-" || k == "wall-clock-straddle" {
			noise += v
		}
	}
	d.finish(d.okTxs > 8 && noise > 0, aborted)
}

func TestC01(t *testing.T) { runRapid(t, "TestC01", c01Property) }

// ---------------- C03 ----------------

func c03Property(t *rapid.T) {
	d := newL3(t, "C03", []string{"U", "R"})
	defer d.close()
	every := tierThorough() && rapid.Bool().Draw(t, "restartEveryBlock")
	aborted := RunCase(func() {
		d.setup()
		if every {
			r := NewAction("restart", 0)
			r.Extra = map[string]string{"every": "1"}
			d.apply(r)
		}
		n := rapid.IntRange(3, 25).Draw(t, "steps")
		for i := 0; i < n; i++ {
			if rapid.IntRange(0, 3).Draw(t, "noisy") == 0 {
				d.apply(genNoise(t, -1)) // the same non-consensus traffic on both; one of them forgets it at restart
			}
			if !d.every && rapid.IntRange(0, 4).Draw(t, "crashHere") == 0 {
				// SIGKILL + restart of R right after the commit of the current block
				r := NewAction("restart", 0)
				r.Target = 1
				d.apply(r)
				d.apply(adv1())
			}
			d.apply(d.genStep(t))
		}
		adv := NewAction("advance", 0)
		adv.Blocks = 1
		d.apply(adv)
	})
	d.finish(d.restarts > 0 && d.okTxs > 8 && d.txAfterRestart > 0, aborted)
}

func TestC03(t *testing.T) { runRapid(t, "TestC03", c03Property) }

// ---------------- C18 ----------------

var noGenesisFieldPrefixes = []string{
	fmt.Sprintf("node/%x", []byte(nodetypes.FaultIdKeyPrefix)),
	fmt.Sprintf("node/%x", []byte(nodetypes.FaultKeyPrefix)),
	fmt.Sprintf("node/%x", []byte(nodetypes.FishingRewardKey)),
	fmt.Sprintf("node/%x", []byte(nodetypes.NodeRoundKeyPrefix)),
}

func kvDiff(a, b map[string]string) (missing, extra, changed []string) {
	for k, v := range a {
		w, ok := b[k]
		if !ok {
			missing = append(missing, k)
		} else if w != v {
			changed = append(changed, k)
		}
	}
	for k := range b {
		if _, ok := a[k]; !ok {
			extra = append(extra, k)
		}
	}
	return
}

func head(a []string) []string {
	if len(a) > 3 {
		return a[:3]
	}
	return a
}

// exportReinit: export the genesis at the last committed height, start a fresh chain from it
// at the exported height and run both from there.
func (d *l3Driver) exportReinit() {
	s := d.s
	// the caller has just advanced a block: the open block is empty, the export point is the last commit.
	// (A history mutilated by minimisation may lack that advance: exporting then would compare a chain
	// with uncommitted transactions against an export that cannot contain them - not a round trip.)
	if d.blockDirty || d.exported {
		d.labels["export-skipped"]++
		return
	}
	// Excluded by construction (known finding kf-node-state-not-in-genesis): the super-node round-robin
	// cursor has no genesis field, so a chain re-initialised while the cursor is not 0 selects other
	// providers from then on. The difference in the cursor itself is reported by the known finding;
	// its downstream consequences would end every such case, so these exports are not made (counted).
	for k, v := range s.Last.NodeRaw {
		if strings.HasPrefix(k, nodetypes.NodeRoundKeyPrefix) && len(v) > 0 && v[0] != 0 {
			s.Excluded["export-while-super-node-cursor-is-not-zero"]++
			d.labels["export-skipped-nonzero-cursor"]++
			return
		}
	}
	orig := d.cl.Reps[0]
	// export = state after the last commit; the block the cluster has just opened is still empty
	ex := d.cl.call(orig, &replica.Req{Op: "export"})
	if ex.Err != "" || ex.Panic != "" {
		d.fail("export-failed", nil, "ExportAppStateAndValidators: %s %s", ex.Err, ex.Panic)
	}
	var state map[string]json.RawMessage
	if err := json.Unmarshal(ex.Export, &state); err != nil {
		infra("exported state: %v", err)
	}
	d.kinds = countKinds(s.Last)
	if err := app.ModuleBasics.ValidateGenesis(s.W.Enc.Marshaler, s.W.Enc.TxConfig, state); err != nil {
		d.fail("export-does-not-validate", nil, "the exported genesis does not pass ValidateGenesis: %v", err)
	}
	if ex.Height != d.cl.Height {
		infra("export height %d, open block %d", ex.Height, d.cl.Height)
	}
	dir := filepath.Join(d.cl.scratch, "reinit")
	os.MkdirAll(dir, 0o755)
	fresh, err := replica.Start(dir)
	if err != nil {
		infra("start: %v", err)
	}
	d.cl.Reps = append(d.cl.Reps, fresh)
	d.cl.Names = append(d.cl.Names, "reinit")
	d.cl.Dirs = append(d.cl.Dirs, dir)
	rs := d.cl.call(fresh, &replica.Req{Op: "init", Genesis: state, ChainID: s.W.Cfg.ChainID, GenTime: d.cl.Time.UnixNano(), InitialHeight: ex.Height})
	if rs.Err != "" || rs.Panic != "" {
		d.fail("reinit-failed", nil, "InitChain from the exported genesis failed: %s %s", rs.Err, rs.Panic)
	}
	fb := d.cl.call(fresh, &replica.Req{Op: "begin", Height: d.cl.Height, Time: d.cl.Time.UnixNano(), Proposer: d.cl.proposer(), AppHash: d.cl.LastHash})
	if fb.Panic != "" {
		d.fail("reinit-first-block-panic", nil, "first BeginBlock after re-genesis panicked: %s", fb.Panic)
	}
	d.exported = true
	d.labels["exported"]++
	if len(s.Last.Timeouts)+len(s.Last.ExpShards) > 0 {
		d.crossed = true
	}
}

func (d *l3Driver) compareRoundTrip(where string) {
	if !d.exported {
		return
	}
	s := d.s
	a := d.cl.call(d.cl.Reps[0], &replica.Req{Op: "kv", Full: true})
	b := d.cl.call(d.cl.Reps[1], &replica.Req{Op: "kv", Full: true})
	// an absent round-robin cursor reads as 0: not a difference
	roundKey := fmt.Sprintf("node/%x", []byte(nodetypes.NodeRoundKeyPrefix+"round/"))
	for _, kv := range []map[string]string{a.KV, b.KV} {
		if kv[roundKey] == "00" {
			delete(kv, roundKey)
		}
	}
	// a stored order count of 0 reads as 1 (x/order GetOrderCount): not a difference
	countKey := fmt.Sprintf("order/%x", []byte(ordertypes.OrderCountKey))
	for _, kv := range []map[string]string{a.KV, b.KV} {
		if kv[countKey] == "0000000000000000" {
			kv[countKey] = "0000000000000001"
		}
	}
	missing, extra, changed := kvDiff(a.KV, b.KV)
	if len(missing)+len(extra)+len(changed) > 0 {
		all := append(append(append([]string{}, missing...), extra...), changed...)
		only := true
		for _, k := range all {
			hit := false
			for _, p := range noGenesisFieldPrefixes {
				if len(k) >= len(p) && k[:len(p)] == p {
					hit = true
				}
			}
			if !hit {
				only = false
			}
		}
		cause := "other"
		if only {
			cause = "node-store-prefix-without-genesis-field"
		}
		s.Tolerate("state-differs-after-round-trip", "", map[string]string{"cause": cause}, "%s: custom stores differ between the original and the re-initialised chain: %d only on the original %v, %d only on the new chain %v, %d different %v", where, len(missing), head(missing), len(extra), head(extra), len(changed), head(changed))
	}
	var addrs []string
	for _, acc := range s.W.Accounts {
		addrs = append(addrs, acc.Bech)
	}
	for _, m := range chain.StorageModules {
		addrs = append(addrs, chain.ModAddr(m).String())
	}
	bz, _ := json.Marshal(addrs)
	ba := d.cl.call(d.cl.Reps[0], &replica.Req{Op: "bal", Data: bz})
	bb := d.cl.call(d.cl.Reps[1], &replica.Req{Op: "bal", Data: bz})
	for _, ad := range addrs {
		if ba.KV[ad] != bb.KV[ad] {
			d.fail("balance-differs-after-round-trip", nil, "%s: balance of %s is %s on the original and %s on the re-initialised chain", where, tail(ad), ba.KV[ad], bb.KV[ad])
		}
	}
}

// countKinds: how many of the record kinds of the storage modules are populated.
func countKinds(sn *chain.Snapshot) int {
	n := 0
	for _, c := range []int{len(sn.Orders), len(sn.Shards), len(sn.Metas), len(sn.Models), len(sn.ExpData), len(sn.ExpShards), len(sn.Timeouts), len(sn.Nodes),
		len(sn.Pledges), len(sn.Debts), len(sn.Workers), len(sn.Did.DidList), len(sn.Did.AccountListList), len(sn.Did.SidDocumentList), len(sn.Did.PaymentAddressList),
		len(sn.Did.KidList), len(sn.NodeRaw)} {
		if c > 0 {
			n++
		}
	}
	for _, sh := range sn.Shards {
		if len(sh.RenewInfos) > 0 {
			n++
			break
		}
	}
	for _, o := range sn.Orders {
		if o.Status != ordertypes.OrderCompleted {
			n++
			break
		}
	}
	return n
}

func c18Property(t *rapid.T) {
	d := newL3(t, "C18", []string{"orig"})
	defer d.close()
	aborted := RunCase(func() {
		d.setup()
		n := rapid.IntRange(3, 30).Draw(t, "steps")
		for i := 0; i < n; i++ {
			d.apply(d.genStep(t))
		}
		d.apply(adv1())
		d.apply(NewAction("export_reinit", 0))
		d.apply(adv1()) // commits the first block on both: the imported state is now comparable
		m := rapid.IntRange(1, 15).Draw(t, "continuation")
		for i := 0; i < m; i++ {
			d.apply(d.genStep(t))
		}
		d.apply(adv2())
	})
	d.s.Labels[fmt.Sprintf("record-kinds-%d", d.kinds)]++
	d.finish(d.kinds >= 8 && d.crossed, aborted)
}

func adv1() *Action {
	a := NewAction("advance", 0)
	a.Blocks = 1
	return a
}

func adv2() *Action {
	a := NewAction("advance", 0)
	a.Blocks = 2
	return a
}

func TestC18(t *testing.T) { runRapid(t, "TestC18", c18Property) }

// ---------------- replays ----------------

func l3Replayer(prop string, names []string) func(t TB, v *Violation) {
	return func(t TB, v *Violation) {
		d := newL3(t, prop, names)
		defer d.close()
		aborted := RunCase(func() {
			for _, a := range v.History {
				b := *a
				b.OK, b.Err, b.Note = false, "", ""
				if b.Kind == "advance" {
					b.Blocks = 1 // the shadow records every block as its own advance
				}
				d.apply(&b)
			}
			// a divergence is detected when a block is closed, before the shadow records that advance
			d.apply(adv1())
		})
		if aborted != "" {
			fmt.Println("REPLAY-ABORTED:", aborted)
		}
	}
}

func init() {
	replayers["TestC01"] = l3Replayer("C01", []string{"A", "B"})
	replayers["TestC03"] = l3Replayer("C03", []string{"U", "R"})
	replayers["TestC18"] = l3Replayer("C18", []string{"orig"})
}
