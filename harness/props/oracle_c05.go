package props

import (
	"fmt"
	"reflect"

	"saoverif/chain"

	modeltypes "github.com/SaoNetwork/sao/x/model/types"
	ordertypes "github.com/SaoNetwork/sao/x/order/types"
	sdk "github.com/cosmos/cosmos-sdk/types"
)

// C05Oracle: an order that ends before any shard completed is refunded in full and leaves no trace.
type C05Oracle struct {
	NopOracle
	before   map[uint64]*c05Rec // by order id, recorded at the successful store
	dirty    map[string]bool    // data ids whose model was legitimately changed by someone else since
	Ended    int
	Classes  map[string]int
}

type c05Rec struct {
	meta      *modeltypes.Metadata // nil: no model existed before
	payer     string
	amount    sdk.Int
	dataId    string
	reassigns int
	isUpdate  bool
	dirty     bool // the model was legitimately changed by another request since this order was placed
}

func NewC05() *C05Oracle {
	return &C05Oracle{before: map[uint64]*c05Rec{}, dirty: map[string]bool{}, Classes: map[string]int{}}
}

func (o *C05Oracle) Name() string { return "C05" }

func (o *C05Oracle) AfterAction(s *Sim, a *Action, pre, post *chain.Snapshot, res *chain.TxResult) {
	switch a.Kind {
	case "store":
		if !res.OK {
			return
		}
		ord, ok := post.Orders[a.Order]
		if !ok {
			return
		}
		rec := &c05Rec{dataId: ord.DataId, amount: ord.Amount.Amount}
		if m, ok := pre.Metas[ord.DataId]; ok {
			mm := m
			rec.meta = &mm
			rec.isUpdate = true
		}
		// the payer is whoever was debited (C04 judges whether that was the right account)
		for _, acc := range s.W.Accounts {
			if post.Bal[acc.Bech].LT(pre.Bal[acc.Bech]) {
				rec.payer = acc.Bech
			}
		}
		o.markDirty(ord.DataId)
		o.before[a.Order] = rec
	case "complete":
		if res.OK {
			if ord, ok := pre.Orders[a.Order]; ok {
				for id, r := range o.before {
					if r.dataId == ord.DataId && id != a.Order {
						r.dirty = true // another order committed a version of this data id meanwhile
					}
				}
			}
		}
	case "terminate", "permission":
		if res.OK {
			o.markDirty(a.DataId)
		}
	case "cancel":
		if !res.OK {
			return
		}
		if po, ok := pre.Orders[a.Order]; ok {
			o.checkEnded(s, "cancel", po, pre, post, true)
		}
	}
}

// Boundary: an order that has been handed to providers and has not started storage can only end
// through a cancel or through the timeout schedule; if no future timeout check names it, the
// clause "when it times out the payer is refunded" can never come true for it.
func (o *C05Oracle) Boundary(s *Sim, sn *chain.Snapshot) {
	for id := range o.before {
		ord, ok := sn.Orders[id]
		if !ok || ord.Status == ordertypes.OrderCompleted || ord.Status == ordertypes.OrderPending || ord.Operation == 3 {
			continue
		}
		reachable := false
		for th, list := range sn.Timeouts {
			if int64(th) > sn.Height {
				for _, oid := range list {
					if oid == id {
						reachable = true
					}
				}
			}
		}
		if !reachable {
			s.FailT("unstarted-order-outside-the-timeout-schedule", "", map[string]string{"timeout": fmt.Sprint(ord.Timeout)}, "h=%d order %d (status %d, timeout %d) has not started storage and no future timeout check names it: it can never time out and its payer can never be refunded that way", sn.Height, id, ord.Status, ord.Timeout)
		}
	}
}

func (o *C05Oracle) markDirty(dataId string) {
	for _, r := range o.before {
		if r.dataId == dataId {
			r.dirty = true
		}
	}
}

func (o *C05Oracle) Step(s *Sim, step string, pre, post *chain.Snapshot) {
	if step != "sao.EndBlocker" {
		return
	}
	// exact money / reservation comparison needs a step in which nothing else moved
	quiet := true
	ended := 0
	for id, po := range pre.Orders {
		n, still := post.Orders[id]
		if !still {
			ended++
			continue
		}
		if n.Replica != po.Replica || !n.Amount.IsEqual(po.Amount) {
			quiet = false
		}
	}
	for id, sh := range pre.Shards {
		if n, ok := post.Shards[id]; sh.Status == ordertypes.ShardCompleted && (!ok || n.OrderId != sh.OrderId) {
			quiet = false
		}
	}
	if ended != 1 {
		quiet = false
	}
	for _, id := range chain.SortedU64(pre.Orders) {
		po := pre.Orders[id]
		if _, still := post.Orders[id]; still {
			// count re-assignments for classification
			if rec := o.before[id]; rec != nil {
				if len(post.Orders[id].Shards) > len(po.Shards) {
					rec.reassigns++
				}
			}
			continue
		}
		if po.Status == ordertypes.OrderCompleted || po.Operation == 3 {
			continue
		}
		o.checkEnded(s, "timeout", po, pre, post, quiet)
	}
}

// checkEnded: order po existed in pre, is gone in post, and never had a completed shard.
func (o *C05Oracle) checkEnded(s *Sim, how string, po ordertypes.Order, pre, post *chain.Snapshot, quiet bool) {
	for _, sid := range po.Shards {
		if sh, ok := pre.Shards[sid]; ok && sh.Status == ordertypes.ShardCompleted {
			return // storage had started: not this property's case
		}
	}
	rec := o.before[po.Id]
	if rec == nil {
		return
	}
	o.Ended++
	trig := map[string]string{"how": how, "update": fmt.Sprint(rec.isUpdate)}
	s.Label("c05-ended-" + how)
	if rec.reassigns > 0 {
		s.Label("c05-after-reassign")
	}
	if rec.isUpdate {
		s.Label("c05-update")
	}
	// full refund to the payer
	if rec.payer != "" {
		got := post.Bal[rec.payer].Sub(pre.Bal[rec.payer])
		if (quiet && !got.Equal(rec.amount)) || got.LT(rec.amount) {
			s.FailT("refund-not-full", "", trig, "order %d ended by %s before any completion: payer %s was charged %s but received %s", po.Id, how, tail(rec.payer), rec.amount, got)
		}
	}
	// order and all its shards are gone
	if _, ok := post.Orders[po.Id]; ok {
		s.FailT("order-remains", "", trig, "order %d still exists after %s", po.Id, how)
	}
	for _, sid := range po.Shards {
		if _, ok := post.Shards[sid]; ok {
			s.FailT("shard-remains", "", trig, "shard %d of order %d still exists after %s", sid, po.Id, how)
		}
	}
	for _, sh := range post.Shards {
		if sh.OrderId == po.Id {
			s.FailT("shard-remains", "", trig, "shard %d still names order %d after %s", sh.Id, po.Id, how)
		}
	}
	// nothing stays reserved with any provider
	for _, sp := range chain.SortedStr(pre.Pledges) {
		a, b := pre.Pledges[sp], post.Pledges[sp]
		if !quiet {
			break
		}
		if a.UsedStorage != b.UsedStorage || !a.TotalShardPledged.IsEqual(b.TotalShardPledged) {
			s.FailT("provider-reservation-changed", "", trig, "%s of order %d changed provider %s: used %d->%d shardPledged %s->%s", how, po.Id, tail(sp), a.UsedStorage, b.UsedStorage, a.TotalShardPledged, b.TotalShardPledged)
		}
	}
	// the model is back to its previously committed version, or gone with its alias
	if rec.dirty {
		return
	}
	cur, exists := post.Metas[rec.dataId]
	if rec.meta == nil {
		if exists {
			s.FailT("model-remains", "", trig, "data model %s had no committed version, yet exists after its only order %d ended by %s (status %d)", tail(rec.dataId), po.Id, how, cur.Status)
		}
		for key, m := range post.Models {
			if m.Data == rec.dataId {
				s.FailT("alias-remains", "", trig, "alias %q of never-committed model %s remains after %s", key, tail(rec.dataId), how)
			}
		}
		return
	}
	if !exists {
		// the committed model may have reached the end of its own paid term meanwhile
		if _, was := pre.Metas[rec.dataId]; was {
			// legitimate only when no stored shard of any committed version is left to go back to
			// (the committed versions' paid term ended while the update was in flight)
			for _, sh := range post.Shards {
				if sh.Status != ordertypes.ShardCompleted {
					continue
				}
				if o, ok := post.Orders[sh.OrderId]; ok && o.DataId == rec.dataId {
					s.FailT("committed-model-removed", "", trig, "%s of update order %d removed the committed data model %s although shard %d of it is still stored", how, po.Id, tail(rec.dataId), sh.Id)
				}
			}
			s.Label("c05-model-ended-with-update")
		}
		return
	}
	b := rec.meta
	diff := ""
	cmp := func(name string, x, y any) {
		if !reflect.DeepEqual(x, y) {
			diff += fmt.Sprintf(" %s: %v -> %v;", name, x, y)
		}
	}
	cmp("Owner", b.Owner, cur.Owner)
	cmp("Alias", b.Alias, cur.Alias)
	cmp("GroupId", b.GroupId, cur.GroupId)
	cmp("Cid", b.Cid, cur.Cid)
	cmp("Commit", b.Commit, cur.Commit)
	cmp("Commits", b.Commits, cur.Commits)
	cmp("OrderId", b.OrderId, cur.OrderId)
	cmp("Orders", b.Orders, cur.Orders)
	cmp("Status", b.Status, cur.Status)
	cmp("ReadonlyDids", b.ReadonlyDids, cur.ReadonlyDids)
	cmp("ReadwriteDids", b.ReadwriteDids, cur.ReadwriteDids)
	if diff != "" {
		s.FailT("model-not-rolled-back", "", trig, "after %s of update order %d the data model %s differs from its committed state:%s", how, po.Id, tail(rec.dataId), diff)
	}
}
