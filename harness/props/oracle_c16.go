package props

import (
	"fmt"
	"strings"

	"saoverif/chain"

	ordertypes "github.com/SaoNetwork/sao/x/order/types"
)

// C16Oracle: identifiers are never reused and grow; the committed history of a model is a
// single chain, one update in flight at most, accepted only on top of the latest version.
type C16Oracle struct {
	NopOracle
	maxOrder, maxShard     uint64
	seenOrder, seenShard   map[uint64]bool
	lastOrderCnt, lastShCt uint64
	models                 map[string]*c16Model
	Contended, StaleTried  int
	Completed              int
}

type c16Model struct {
	V        []string
	inflight uint64 // order id, 0 = none
	op       uint32
	commit   string
}

func NewC16() *C16Oracle {
	return &C16Oracle{seenOrder: map[uint64]bool{}, seenShard: map[uint64]bool{}, models: map[string]*c16Model{}}
}

func (o *C16Oracle) Name() string { return "C16" }

func splitCommit(expr string) (base, commit string) {
	if i := strings.Index(expr, "|"); i >= 0 {
		rest := expr[i+1:]
		if j := strings.Index(rest, "|"); j >= 0 {
			rest = rest[:j]
		}
		return expr[:i], rest
	}
	return expr, expr
}

func (o *C16Oracle) ids(s *Sim, where string, pre, post *chain.Snapshot) {
	if post.OrderCount < o.lastOrderCnt || post.ShardCount < o.lastShCt {
		s.FailT("id-counter-decreased", "", nil, "%s: OrderCount %d->%d ShardCount %d->%d", where, o.lastOrderCnt, post.OrderCount, o.lastShCt, post.ShardCount)
	}
	o.lastOrderCnt, o.lastShCt = post.OrderCount, post.ShardCount
	for _, id := range chain.SortedU64(post.Orders) {
		if o.seenOrder[id] {
			if _, ok := pre.Orders[id]; !ok {
				s.FailT("order-id-reused", "", nil, "%s: order id %d is in use again after having been removed", where, id)
			}
			continue
		}
		if len(o.seenOrder) > 0 && id <= o.maxOrder {
			s.FailT("order-id-not-increasing", "", nil, "%s: new order id %d is not greater than the largest id seen so far %d", where, id, o.maxOrder)
		}
		o.seenOrder[id] = true
		if id > o.maxOrder {
			o.maxOrder = id
		}
	}
	for _, id := range chain.SortedU64(post.Shards) {
		if o.seenShard[id] {
			if _, ok := pre.Shards[id]; !ok {
				s.FailT("shard-id-reused", "", nil, "%s: shard id %d is in use again after having been removed", where, id)
			}
			continue
		}
		if len(o.seenShard) > 0 && id <= o.maxShard {
			s.FailT("shard-id-not-increasing", "", nil, "%s: new shard id %d is not greater than the largest id seen so far %d", where, id, o.maxShard)
		}
		o.seenShard[id] = true
		if id > o.maxShard {
			o.maxShard = id
		}
	}
}

func (o *C16Oracle) AfterAction(s *Sim, a *Action, pre, post *chain.Snapshot, res *chain.TxResult) {
	o.ids(s, a.Kind, pre, post)
	switch a.Kind {
	case "store":
		m := o.models[a.DataId]
		_, existed := pre.Metas[a.DataId]
		base, commit := splitCommit(a.Commit)
		if existed && m != nil {
			if m.inflight != 0 {
				o.Contended++
				s.Label("c16-contended")
			}
			if len(m.V) > 0 && base != m.V[len(m.V)-1] {
				o.StaleTried++
				s.Label("c16-stale-base-tried")
			}
		}
		if !res.OK {
			return
		}
		if !existed || m == nil {
			o.models[a.DataId] = &c16Model{inflight: a.Order, op: a.Op, commit: commit}
			return
		}
		trig := map[string]string{"baseShape": baseShape(base, m)}
		if m.inflight != 0 {
			s.FailT("second-update-in-flight", "", trig, "store of order %d on %s accepted while order %d is still in flight", a.Order, tail(a.DataId), m.inflight)
		}
		if len(m.V) > 0 && base != m.V[len(m.V)-1] {
			s.FailT("update-on-stale-base", "", trig, "store of order %d on %s accepted with base %q, but the latest committed version is %q (history %v)", a.Order, tail(a.DataId), base, m.V[len(m.V)-1], tails(m.V))
		}
		m.inflight, m.op, m.commit = a.Order, a.Op, commit
	case "complete":
		if !res.OK {
			return
		}
		po, ok := pre.Orders[a.Order]
		if !ok || po.Status == ordertypes.OrderCompleted {
			return
		}
		no, ok := post.Orders[a.Order]
		if !ok || no.Status != ordertypes.OrderCompleted {
			return
		}
		m := o.models[po.DataId]
		if m == nil {
			return
		}
		if m.inflight != a.Order {
			s.FailT("foreign-order-committed", "", nil, "completion of order %d committed a version of %s, but the update in flight is order %d", a.Order, tail(po.DataId), m.inflight)
		}
		if po.Operation == 2 && len(m.V) > 0 {
			m.V[len(m.V)-1] = po.Commit
		} else {
			m.V = append(m.V, po.Commit)
		}
		m.inflight = 0
		o.Completed++
		s.Label("c16-update-completed")
	case "cancel":
		if res.OK {
			if po, ok := pre.Orders[a.Order]; ok {
				if m := o.models[po.DataId]; m != nil && m.inflight == a.Order {
					m.inflight = 0
					if len(m.V) == 0 {
						delete(o.models, po.DataId)
					}
				}
			}
		}
	case "terminate":
		if res.OK {
			delete(o.models, a.DataId)
		}
	}
	o.compare(s, post, a.Kind)
}

func baseShape(base string, m *c16Model) string {
	if len(m.V) == 0 {
		return "no-history"
	}
	last := m.V[len(m.V)-1]
	switch {
	case base == last:
		return "latest"
	case base == "":
		return "empty"
	case strings.Contains(last, base):
		return "substring-of-latest"
	default:
		for _, v := range m.V {
			if v == base {
				return "older-version"
			}
		}
		return "unrelated"
	}
}

func (o *C16Oracle) Step(s *Sim, step string, pre, post *chain.Snapshot) {
	if step != "sao.EndBlocker" && step != "model.EndBlocker" {
		return
	}
	o.ids(s, step, pre, post)
	// in-flight orders that the timeout mechanism gave up
	for d, m := range o.models {
		if m.inflight != 0 {
			if _, ok := post.Orders[m.inflight]; !ok {
				if po, was := pre.Orders[m.inflight]; was && po.Status != ordertypes.OrderCompleted {
					m.inflight = 0
					if len(m.V) == 0 {
						delete(o.models, d)
					}
				}
			}
		}
	}
	for d := range pre.Metas {
		if _, ok := post.Metas[d]; !ok {
			delete(o.models, d) // end of the model's paid lifetime
		}
	}
}

func (o *C16Oracle) Boundary(s *Sim, sn *chain.Snapshot) { o.compare(s, sn, "boundary") }

func (o *C16Oracle) compare(s *Sim, sn *chain.Snapshot, where string) {
	for _, d := range chain.SortedStr(sn.Metas) {
		meta := sn.Metas[d]
		m := o.models[d]
		if m == nil {
			continue
		}
		var got []string
		for _, v := range meta.Commits {
			if i := strings.IndexByte(v, 26); i >= 0 {
				v = v[:i]
			}
			got = append(got, v)
		}
		if fmt.Sprint(got) != fmt.Sprint(m.V) {
			s.FailT("history-not-the-chain", "", nil, "%s: committed history of %s is %v, the chain of accepted versions is %v", where, tail(d), tails(got), tails(m.V))
		}
	}
	// at most one order per data id in a non-final state
	open := map[string][]uint64{}
	for _, id := range chain.SortedU64(sn.Orders) {
		ord := sn.Orders[id]
		if ord.Operation == 3 {
			continue
		}
		if ord.Status == ordertypes.OrderPending || ord.Status == ordertypes.OrderDataReady || ord.Status == ordertypes.OrderInProgress {
			open[ord.DataId] = append(open[ord.DataId], id)
		}
	}
	for _, d := range chain.SortedStr(open) {
		if len(open[d]) > 1 {
			s.Tolerate("two-orders-in-flight", "", map[string]string{"cause": o.inflightCause(sn, d, open[d])}, "%s: data id %s has %d orders in flight: %v", where, tail(d), len(open[d]), open[d])
		}
	}
}

// inflightCause classifies how a second in-flight order for one data id came about.
func (o *C16Oracle) inflightCause(sn *chain.Snapshot, d string, ids []uint64) string {
	m := o.models[d]
	for _, id := range ids {
		if m == nil || id != m.inflight {
			// an order the reference model does not know as this model's update: left over from a terminated incarnation
			return "order-survived-terminate"
		}
	}
	return "other"
}
