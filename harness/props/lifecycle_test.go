package props

import (
	"testing"

	nodetypes "github.com/SaoNetwork/sao/x/node/types"
	sdk "github.com/cosmos/cosmos-sdk/types"
	"pgregory.net/rapid"
)

// lifeSpec describes one lifecycle-history property.
type lifeSpec struct {
	Prop       string
	Test       string
	Oracles    func() []Oracle
	Tune       func(cfg *LifeCfg, s *Sim)
	Nontrivial func(s *Sim, os []Oracle) bool
	Weights    map[string]int // action weights (default 1); 0 disables
	Capacity   uint64
	Drain      bool // advance until nothing is scheduled at the end of the case
	VaryWorld  bool // number of providers and the smallest file size are generated
	MaxSteps   int
	Finish     func(s *Sim, cfg *LifeCfg, os []Oracle)
	Pre        func(t *rapid.T, s *Sim, cfg *LifeCfg, os []Oracle) // generated configuration, before world setup
	OnReplay   func(s *Sim, os []Oracle)
}

var lifeActions = []string{"storeNew", "storeUpdate", "complete", "cancel", "terminate", "renew", "migrate", "claim", "advance", "storeHostile", "seed", "vstorage", "bankDrain", "resetNode", "debtCombo", "keepAlive", "permission", "storeStale", "migRotate", "fault", "forceAfterRenew", "settleAfterMig", "poorTakeover", "claimBurst", "claimUnderDebt", "secondMigration", "fillThenZero"}

// actions that are off unless a spec gives them a weight
var lifeOptIn = map[string]bool{"storeHostile": true, "seed": true, "vstorage": true, "bankDrain": true, "resetNode": true, "debtCombo": true, "keepAlive": true, "permission": true, "storeStale": true, "migRotate": true, "fault": true, "forceAfterRenew": true, "settleAfterMig": true, "poorTakeover": true, "claimBurst": true, "claimUnderDebt": true, "secondMigration": true, "fillThenZero": true}

func (sp *lifeSpec) newSim(t TB) (*Sim, *LifeCfg, []Oracle) {
	os := sp.Oracles()
	s := NewSim(t, sp.Prop, os...)
	s.HypoBoundary = true
	cfg := DefaultLifeCfg()
	if sp.Tune != nil {
		sp.Tune(cfg, s)
	}
	return s, cfg, os
}

func (sp *lifeSpec) property() func(*rapid.T) {
	return func(t *rapid.T) {
		s, cfg, os := sp.newSim(t)
		capacity := sp.Capacity
		if capacity == 0 {
			capacity = 1_000_000_000
		}
		aborted := RunCase(func() {
			if sp.Pre != nil {
				sp.Pre(t, s, cfg, os)
			}
			if sp.VaryWorld {
				// world shape: few providers (no replacement can be found for a stalled shard) and tiny files
				// (prices, collateral and refunds that truncate to zero)
				n := rapid.SampledFrom([]int{5, 5, 5, 4, 3, 2}).Draw(t, "nProviders")
				cfg.Providers = cfg.Providers[:n]
				if rapid.IntRange(0, 3).Draw(t, "tinyFiles") == 0 {
					cfg.MinSize = 1
					s.Label("world-tiny-files")
				}
				if n < 4 {
					s.Label("world-few-providers")
				}
			}
			if cfg.Capacity != 0 {
				capacity = cfg.Capacity
			}
			s.SetupStorage(cfg, capacity)
			gens := map[string]func(*rapid.T, *Sim) *Action{
				"storeNew": cfg.GenStoreNew, "storeUpdate": cfg.GenStoreUpdate, "complete": cfg.GenComplete,
				"cancel": cfg.GenCancel, "terminate": cfg.GenTerminate, "renew": cfg.GenRenew,
				"migrate": cfg.GenMigrate, "claim": cfg.GenClaim, "advance": cfg.GenAdvance,
				"storeHostile": cfg.GenStoreHostile, "seed": cfg.GenSeed, "vstorage": cfg.GenVstorage, "bankDrain": cfg.GenBankDrain, "resetNode": cfg.GenResetNode, "debtCombo": cfg.GenDebtCombo, "keepAlive": cfg.GenKeepAlive, "permission": cfg.GenPermission, "storeStale": cfg.GenStoreStale, "migRotate": cfg.GenMigrationAcrossRotation, "fault": cfg.GenFault, "forceAfterRenew": cfg.GenForceAfterRenew, "settleAfterMig": cfg.GenSettleAfterMigration, "poorTakeover": cfg.GenPoorTakeover, "claimBurst": cfg.GenClaimBurst, "claimUnderDebt": cfg.GenClaimUnderDebt, "secondMigration": cfg.GenSecondMigration, "fillThenZero": cfg.GenFillThenZero,
			}
			var menu []string
			for _, k := range lifeActions {
				w := 1
				if lifeOptIn[k] {
					w = 0
				}
				if sp.Weights != nil {
					if x, ok := sp.Weights[k]; ok {
						w = x
					}
				}
				for i := 0; i < w; i++ {
					menu = append(menu, k)
				}
			}
			maxSteps := sp.MaxSteps
			if maxSteps == 0 {
				maxSteps = 40
			}
			n := rapid.IntRange(1, maxSteps).Draw(t, "steps")
			for i := 0; i < n; i++ {
				k := rapid.SampledFrom(menu).Draw(t, "action")
				a := gens[k](t, s)
				if a == nil {
					// not applicable in this state: fall back to the always-enabled actions
					if k == "complete" || k == "storeUpdate" {
						a = cfg.GenStoreNew(t, s)
					}
					if a == nil {
						a = cfg.GenAdvance(t, s)
					}
				}
				res := s.Do(a)
				if res.OK {
					s.Label(a.Kind + "+")
				} else {
					s.Label(a.Kind + "-")
				}
			}
			if sp.Drain {
				s.DrainAll(60000)
			}
			if sp.Finish != nil {
				sp.Finish(s, cfg, os)
			}
		})
		if aborted != "" {
			stats.Abort(aborted)
			return
		}
		stats.Record(s.HistHash(), sp.Nontrivial(s, os), s.Labels, s.Excluded, func() any { return s.Summary() })
	}
}

func (sp *lifeSpec) register() {
	replayers[sp.Test] = func(t TB, v *Violation) {
		s, _, os := sp.newSim(t)
		if sp.OnReplay != nil {
			sp.OnReplay(s, os)
		}
		replayHistory(s, v.History)
	}
}

// ---- C13 ----

var specC13 = &lifeSpec{
	Prop: "C13", Test: "TestC13", VaryWorld: true,
	Oracles: func() []Oracle { return []Oracle{&C13Oracle{}} },
	Nontrivial: func(s *Sim, os []Oracle) bool {
		o := os[0].(*C13Oracle)
		rewrites := s.Labels["migrate+"] + s.Labels["terminate+"] + s.Labels["cancel+"] + s.Labels["renew+"] + s.Labels["rotated"] + s.Labels["storeForce+"]
		return o.MaxOrders >= 2 && o.MaxShards >= 3 && rewrites > 0
	},
	Weights: map[string]int{"complete": 4, "advance": 3, "storeNew": 2, "migRotate": 1},
}

func init() { specC13.register() }

func TestC13(t *testing.T) { runRapid(t, "TestC13", specC13.property()) }

// ---- C14 ----

var specC14 = &lifeSpec{
	Prop: "C14", Test: "TestC14", VaryWorld: true,
	Oracles: func() []Oracle { return []Oracle{&C14Oracle{}} },
	Nontrivial: func(s *Sim, os []Oracle) bool {
		o := os[0].(*C14Oracle)
		dec := s.Labels["migrate+"] + s.Labels["terminate+"] + s.Labels["expired"]
		return o.MaxHolding >= 2 && dec > 0
	},
	Weights: map[string]int{"complete": 4, "advance": 3, "storeNew": 2, "debtCombo": 1, "bankDrain": 1, "vstorage": 1, "migRotate": 1, "poorTakeover": 1},
}

func init() { specC14.register() }

func TestC14(t *testing.T) { runRapid(t, "TestC14", specC14.property()) }

// ---- C02 (histories) ----

var specC02 = &lifeSpec{
	Prop: "C02", Test: "TestC02History",
	Oracles: func() []Oracle { return nil },
	Nontrivial: func(s *Sim, os []Oracle) bool {
		return s.Labels["expired"]+s.Labels["rotated"]+s.Labels["timeout-reassigned"]+s.Labels["order-gave-up"]+s.Labels["replica-reduced"]+s.Labels["model-expired"] > 0
	},
	Weights:  map[string]int{"complete": 4, "advance": 4, "storeNew": 2, "storeHostile": 2, "seed": 1, "vstorage": 1, "bankDrain": 1, "renew": 2, "fault": 1, "poorTakeover": 1},
	Drain:    true,
	MaxSteps: 50,
}

func init() { specC02.register() }

func TestC02History(t *testing.T) { runRapid(t, "TestC02History", specC02.property()) }

// ---- C06 ----

var specC06 = &lifeSpec{
	Prop: "C06", Test: "TestC06", VaryWorld: true,
	Oracles: func() []Oracle { return []Oracle{&C06Oracle{}} },
	Nontrivial: func(s *Sim, os []Oracle) bool {
		o := os[0].(*C06Oracle)
		interesting := s.Labels["debt-created"] + s.Labels["debt-repaid"] + s.Labels["renew+"] + s.Labels["migrate+"] + s.Labels["claim+"]
		return o.MaxEscrowsNonZero >= 2 && interesting > 0
	},
	Weights: map[string]int{"complete": 4, "advance": 3, "storeNew": 2, "renew": 3, "bankDrain": 2, "claim": 2, "vstorage": 1, "debtCombo": 2, "poorTakeover": 1, "claimBurst": 1, "claimUnderDebt": 1},
	Pre: func(t *rapid.T, s *Sim, cfg *LifeCfg, os []Oracle) {
		// half of the worlds mint block rewards that are visible in whole coins (claims then mix
		// block reward and storage income, also when collateral debt is repaid from them)
		if rapid.Bool().Draw(t, "visibleRewards") {
			a := NewAction("params", 0)
			apy, _ := sdk.NewDecFromStr(rapid.SampledFrom([]string{"0.5", "25"}).Draw(t, "apy"))
			p := nodetypes.NewParams(sdk.NewInt64Coin(s.W.Cfg.Denom, rapid.SampledFrom([]int64{20, 1000, 50_000}).Draw(t, "blockReward")),
				sdk.NewInt64Coin(s.W.Cfg.Denom, rapid.SampledFrom([]int64{1, 1000, 1_000_000_000}).Draw(t, "baseline")), apy, 32000000, 2000, "", 1, 10000,
				sdk.NewDecWithPrec(10, 2), 10_000_000, 1_000_000)
			a.Params = &p
			s.Do(a)
			s.Label("world-visible-block-rewards")
		}
	},
	Drain:   true,
}

func init() { specC06.register() }

func TestC06(t *testing.T) { runRapid(t, "TestC06", specC06.property()) }

// ---- C11 ----

var specC11 = &lifeSpec{
	Prop: "C11", Test: "TestC11", VaryWorld: true,
	Oracles:    func() []Oracle { return []Oracle{NewC11()} },
	Nontrivial: func(s *Sim, os []Oracle) bool { return os[0].(*C11Oracle).Reached > 0 },
	Weights:    map[string]int{"complete": 5, "advance": 4, "storeNew": 2, "storeUpdate": 2, "renew": 3, "migrate": 2, "cancel": 1, "terminate": 1, "claim": 0, "migRotate": 1},
	Drain:      true,
	MaxSteps:   30,
}

func init() { specC11.register() }

func TestC11(t *testing.T) { runRapid(t, "TestC11", specC11.property()) }

// ---- C05 ----

var specC05 = &lifeSpec{
	Prop: "C05", Test: "TestC05", VaryWorld: true,
	Oracles: func() []Oracle { return []Oracle{NewC05()} },
	Tune: func(cfg *LifeCfg, s *Sim) {
		s.TraceSteps = true
		cfg.TimeoutHi = 12
		cfg.ZeroTimeouts = true
	},
	Nontrivial: func(s *Sim, os []Oracle) bool {
		return os[0].(*C05Oracle).Ended > 0 && (s.Labels["c05-after-reassign"]+s.Labels["c05-update"] > 0 || s.Labels["c05-ended-timeout"] > 0)
	},
	Weights:  map[string]int{"complete": 1, "advance": 5, "storeNew": 3, "storeUpdate": 3, "cancel": 3, "resetNode": 2, "renew": 2, "migrate": 0, "claim": 0, "terminate": 1},
	MaxSteps: 40,
}

func init() { specC05.register() }

func TestC05(t *testing.T) { runRapid(t, "TestC05", specC05.property()) }

// ---- C07 ----

var specC07 = &lifeSpec{
	Prop: "C07", Test: "TestC07", VaryWorld: true,
	Oracles: func() []Oracle { return []Oracle{NewC07()} },
	Tune:    func(cfg *LifeCfg, s *Sim) { s.TraceSteps = true },
	Nontrivial: func(s *Sim, os []Oracle) bool {
		return os[0].(*C07Oracle).Ended > 0 && (s.Labels["add_vstorage+"]+s.Labels["remove_vstorage+"]+s.Labels["renew+"]+s.Labels["claim+"] > 0)
	},
	Weights:  map[string]int{"complete": 5, "advance": 4, "storeNew": 2, "renew": 3, "migrate": 2, "vstorage": 3, "bankDrain": 2, "claim": 2, "terminate": 1, "debtCombo": 2, "migRotate": 1, "poorTakeover": 1},
	Drain:    true,
	MaxSteps: 35,
	Capacity: 300_000_000,
}

func init() { specC07.register() }

func TestC07(t *testing.T) { runRapid(t, "TestC07", specC07.property()) }

// ---- C04 ----

var specC04 = &lifeSpec{
	Prop: "C04", Test: "TestC04", VaryWorld: true,
	Oracles: func() []Oracle { return []Oracle{NewC04()} },
	Tune:    func(cfg *LifeCfg, s *Sim) { s.TraceSteps = true },
	Nontrivial: func(s *Sim, os []Oracle) bool {
		return os[0].(*C04Oracle).Settled > 0 && s.Labels["claim+"] > 0
	},
	Weights:  map[string]int{"complete": 5, "advance": 4, "storeNew": 3, "storeUpdate": 2, "renew": 3, "migrate": 2, "claim": 2, "terminate": 2, "cancel": 1, "keepAlive": 1, "migRotate": 1, "settleAfterMig": 2, "claimBurst": 2},
	Drain:    true,
	MaxSteps: 35,
	Finish: func(s *Sim, cfg *LifeCfg, os []Oracle) {
		for _, p := range cfg.Providers {
			s.Do(NewAction("claim", p))
		}
		os[0].(*C04Oracle).Final(s)
	},
}

func init() {
	replayers["TestC04"] = func(t TB, v *Violation) {
		s, cfg, os := specC04.newSim(t)
		replayHistory(s, v.History)
		_ = cfg
		if RunCase(func() { os[0].(*C04Oracle).Final(s) }) != "" {
			return
		}
	}
}

func TestC04(t *testing.T) { runRapid(t, "TestC04", specC04.property()) }

// ---- C08 ----

// genAimedRewardParams aims the below-baseline limit pledged*APY/(HalvingPeriod/2) at the block reward of the
// current halving age (pledged = what the standard setup pledges), so that the two caps of the mint interact.
func genAimedRewardParams(t *rapid.T, denom string, pledged int64, age uint) *nodetypes.Params {
	reward := rapid.SampledFrom([]int64{1000, 64_000, 1_000_000}).Draw(t, "blockReward")
	halving := rapid.SampledFrom([]int64{12, 100, 5000}).Draw(t, "halving")
	cur := reward >> age
	target := rapid.SampledFrom([]int64{cur - 1, cur, cur + 1, (cur + reward) / 2, reward - 1, reward, reward + 1, cur / 2}).Draw(t, "limitTarget")
	if target < 1 {
		target = 1
	}
	// APY = target * (halving/2) / pledged, with a little headroom so that truncation lands on target
	apy := sdk.NewDec(target).MulInt64(halving / 2).QuoInt64(pledged).Add(sdk.NewDecWithPrec(1, 12))
	p := nodetypes.NewParams(sdk.NewInt64Coin(denom, reward), sdk.NewInt64Coin(denom, 1_000_000_000_000_000), apy, halving,
		rapid.SampledFrom([]int64{11, 50, 2000}).Draw(t, "adjust"), "", 1, 10000, sdk.NewDecWithPrec(10, 2), 10_000_000, 1_000_000)
	return &p
}

func genNodeParams(t *rapid.T, denom string) *nodetypes.Params {
	reward := rapid.SampledFrom([]int64{0, 1, 7, 1000, 1_000_000, 6_250_000}).Draw(t, "blockReward")
	baseline := rapid.SampledFrom([]int64{0, 1, 1000, 4999, 5001, 20000, 1_000_000_000_000_000}).Draw(t, "baseline")
	apy := rapid.SampledFrom([]string{"0", "0.01", "0.5", "1", "25"}).Draw(t, "apy")
	halving := rapid.SampledFrom([]int64{11, 12, 100, 5000, 32000000}).Draw(t, "halving")
	adjust := rapid.SampledFrom([]int64{11, 17, 50, 2000}).Draw(t, "adjust")
	apyDec, _ := sdk.NewDecFromStr(apy)
	p := nodetypes.NewParams(sdk.NewInt64Coin(denom, reward), sdk.NewInt64Coin(denom, baseline), apyDec, halving, adjust, "", 1, 10000,
		sdk.NewDecWithPrec(10, 2), 10_000_000, 1_000_000)
	return &p
}

var specC08 = &lifeSpec{
	Prop: "C08", Test: "TestC08",
	Oracles: func() []Oracle { return []Oracle{NewC08()} },
	Tune: func(cfg *LifeCfg, s *Sim) {
		s.Oracles[0].(*C08Oracle).Attach(s)
		cfg.MaxDur = 4000
	},
	Pre: func(t *rapid.T, s *Sim, cfg *LifeCfg, os []Oracle) {
		a := NewAction("params", 0)
		if rapid.Bool().Draw(t, "aimed") {
			// halving age 0-3 through an installed reward counter; 5 providers x 1e9 bytes = 5000 coins pledged
			age := uint(rapid.IntRange(0, 3).Draw(t, "age"))
			a.Params = genAimedRewardParams(t, s.W.Cfg.Denom, 5000, age)
			s.Do(a)
			if age > 0 {
				p := NewAction("set_pool", 0)
				p.Amount = []int64{0, 200000000000000, 300000000000000, 350000000000000}[age] + int64(rapid.IntRange(0, 1000).Draw(t, "into"))
				s.Do(p)
				v := sdk.NewInt(p.Amount)
				os[0].(*C08Oracle).baseReward = &v
			}
			return
		}
		a.Params = genNodeParams(t, s.W.Cfg.Denom)
		s.Do(a)
		if rapid.IntRange(0, 3).Draw(t, "preminted") == 0 {
			// a pool whose reward counter is already far along (a genesis field), to reach later halving ages
			p := NewAction("set_pool", 0)
			p.Amount = rapid.SampledFrom([]int64{200000000000000, 300000000000000, 399999999000000, 399999999999000}).Draw(t, "totalReward")
			s.Do(p)
			v := sdk.NewInt(p.Amount)
			os[0].(*C08Oracle).baseReward = &v
		}
	},
	OnReplay: func(s *Sim, os []Oracle) {},
	Nontrivial: func(s *Sim, os []Oracle) bool {
		o := os[0].(*C08Oracle)
		return o.Mints > 0 && o.CapChanges > 0 && o.Claims > 0
	},
	Weights:  map[string]int{"complete": 2, "advance": 5, "storeNew": 2, "storeUpdate": 0, "renew": 1, "migrate": 1, "claim": 4, "terminate": 1, "cancel": 0, "vstorage": 5, "claimUnderDebt": 3},
	MaxSteps: 40,
	Capacity: 1_000_000_000,
}

func init() {
	specC08.register()
	base := replayers["TestC08"]
	replayers["TestC08"] = func(t TB, v *Violation) {
		// the pre-minted counter is part of the recorded history (set_pool action)
		for _, a := range v.History {
			if a.Kind == "set_pool" {
				amt := sdk.NewInt(a.Amount)
				c08ReplayBase = &amt
			}
		}
		base(t, v)
		c08ReplayBase = nil
	}
	specC08.OnReplay = func(s *Sim, os []Oracle) { os[0].(*C08Oracle).baseReward = c08ReplayBase }
}

var c08ReplayBase *sdk.Int

func TestC08(t *testing.T) { runRapid(t, "TestC08", specC08.property()) }

// ---- C16 ----

var specC16 = &lifeSpec{
	Prop: "C16", Test: "TestC16",
	Oracles: func() []Oracle { return []Oracle{NewC16()} },
	Tune: func(cfg *LifeCfg, s *Sim) {
		s.TraceSteps = true
		cfg.MaxData = 2
		cfg.TimeoutHi = 15
	},
	Nontrivial: func(s *Sim, os []Oracle) bool {
		o := os[0].(*C16Oracle)
		return (o.Contended > 0 || o.StaleTried > 0) && o.Completed > 0
	},
	Weights:  map[string]int{"complete": 6, "advance": 3, "storeNew": 2, "storeUpdate": 3, "storeStale": 5, "permission": 1, "cancel": 2, "terminate": 1, "renew": 2, "migrate": 0, "claim": 0, "forceAfterRenew": 3},
	MaxSteps: 40,
}

func init() { specC16.register() }

func TestC16(t *testing.T) { runRapid(t, "TestC16", specC16.property()) }
