package props

import (
	"fmt"
	"sync"
	"testing"

	"saoverif/chain"

	"pgregory.net/rapid"
)

// ---- C02: configurations (single coherent denomination other than the default, parameter sets) ----

var (
	cfgWorldMu sync.Mutex
	cfgWorlds  = map[string]*chain.World{}
)

// worldFor returns a (cached) world whose every coin - bond denom, balances, node parameters, pool - uses denom.
func worldFor(denom string) *chain.World {
	cfgWorldMu.Lock()
	defer cfgWorldMu.Unlock()
	if w, ok := cfgWorlds[denom]; ok {
		return w
	}
	cfg := chain.DefaultGenesisConfig()
	cfg.Denom = denom
	w, err := chain.NewWorld(cfg)
	if err != nil {
		infra("world for denom %s: %v", denom, err)
	}
	cfgWorlds[denom] = w
	return w
}

func c02ConfigProperty(t *rapid.T) {
	denom := rapid.SampledFrom([]string{"sao", "stake", "usct", "asao"}).Draw(t, "denom")
	w := worldFor(denom)
	s := newSimOn(w, t, "C02", true)
	cfg := DefaultLifeCfg()
	aborted := RunCase(func() {
		// the denomination and parameters are genesis state: they are recorded so that a replay builds the same world
		a := NewAction("params", 0)
		a.Params = genNodeParams(t, denom)
		a.Extra = map[string]string{"denom": denom}
		if rapid.IntRange(0, 3).Draw(t, "hugeReward") == 0 {
			// any coin passes parameter validation, also a block reward above the total reward cap
			a.Params.BlockReward.Amount = a.Params.BlockReward.Amount.MulRaw(0).AddRaw(rapid.SampledFrom([]int64{399_999_999_999_999, 400_000_000_000_000, 500_000_000_000_000}).Draw(t, "reward"))
			a.Params.Baseline.Amount = a.Params.Baseline.Amount.MulRaw(0)
		}
		s.Do(a)
		if rapid.IntRange(0, 3).Draw(t, "nearCap") == 0 {
			// the pool (a genesis field) may carry a reward counter at or next to the cap
			p := NewAction("set_pool", 0)
			p.Amount = rapid.SampledFrom([]int64{399_999_999_999_000, 399_999_999_999_999, 400_000_000_000_000}).Draw(t, "totalReward")
			s.Do(p)
		}
		s.SetupStorage(cfg, uint64(rapid.SampledFrom([]int{1_000_000, 1_000_000_000}).Draw(t, "capacity")))
		n := rapid.IntRange(1, 12).Draw(t, "steps")
		for i := 0; i < n; i++ {
			var x *Action
			switch rapid.IntRange(0, 5).Draw(t, "step") {
			case 0:
				x = cfg.GenStoreNew(t, s)
			case 1:
				x = cfg.GenComplete(t, s)
			case 2:
				x = cfg.GenClaim(t, s)
			case 3:
				x = cfg.GenVstorage(t, s)
			case 4:
				// every provider withdraws an amount that is not a whole number of pledge units and then
				// everything that is still free: the network may end with no capacity at all
				if rapid.IntRange(0, 2).Draw(t, "drainAll") == 0 {
					for _, p := range cfg.Providers {
						r1 := NewAction("remove_vstorage", p)
						r1.Size = uint64(rapid.SampledFrom([]int{1, 500_000, 999_999, 1_500_000}).Draw(t, "unaligned"))
						s.Do(r1)
						if pl, ok := s.Last.Pledges[s.bech(p)]; ok && pl.TotalStorage > pl.UsedStorage {
							r2 := NewAction("remove_vstorage", p)
							r2.Size = uint64(pl.TotalStorage - pl.UsedStorage)
							s.Do(r2)
						}
					}
					s.Label("c02-everybody-withdrew")
				}
			}
			if x == nil {
				x = cfg.GenAdvance(t, s)
				if x.Blocks > 50 {
					x.Blocks = 50
				}
			}
			s.Do(x)
		}
	})
	if aborted != "" {
		stats.Abort(aborted)
		return
	}
	s.Label("denom:" + denom)
	minted := s.Last.Pool.TotalReward.Amount.IsPositive()
	if minted {
		s.Label("minted")
	}
	stats.Record(s.HistHash(), minted && s.Labels["store+"] > 0, s.Labels, s.Excluded, func() any { return append([]string{fmt.Sprint("denom=", denom)}, s.Summary()...) })
}

func TestC02Config(t *testing.T) { runRapid(t, "TestC02Config", c02ConfigProperty) }

func init() {
	replayers["TestC02Config"] = func(t TB, v *Violation) {
		denom := "sao"
		for _, a := range v.History {
			if a.Kind == "params" && a.Extra["denom"] != "" {
				denom = a.Extra["denom"]
			}
		}
		s := newSimOn(worldFor(denom), t, "C02", true)
		replayHistory(s, v.History)
	}
}
