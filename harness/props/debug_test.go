package props

import (
	"encoding/json"
	"fmt"
	"os"
	"testing"
)

// TestDebugReplay prints the state of orders after every action of a replay file (development aid).
func TestDebugReplay(t *testing.T) {
	f := os.Getenv("DEBUG_REPLAY")
	if f == "" {
		t.Skip()
	}
	bz, _ := os.ReadFile(f)
	var v Violation
	json.Unmarshal(bz, &v)
	s := NewSim(replayT{t}, v.Property)
	for _, a := range v.History {
		b := *a
		if b.Kind == "advance" && b.Blocks > 1 {
			for i := int64(0); i < b.Blocks; i++ {
				c := *NewAction("advance", 0)
				c.Blocks = 1
				s.Do(&c)
				dump(s)
			}
			continue
		}
		s.Do(&b)
		fmt.Println(b.String())
		dump(s)
	}
}

var lastDump string

func dump(s *Sim) {
	sn := s.Last
	out := ""
	for _, o := range sortedOrders(sn) {
		out += fmt.Sprintf("   o%d st=%d rep=%d amt=%s shards=%v;", o.Id, o.Status, o.Replica, o.Amount.Amount, o.Shards)
	}
	out += fmt.Sprintf(" market=%s order=%s", sn.Bal["mod:market"], sn.Bal["mod:order"])
	if out != lastDump {
		fmt.Printf(" h=%d %s\n", sn.Height, out)
		lastDump = out
	}
}


