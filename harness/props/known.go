package props

import (
	"encoding/json"
	"os"
	"sync"
)

// Finding is one entry of /verif/known_findings.json.
type Finding struct {
	ID       string            `json:"id"`
	Status   string            `json:"status"` // "open" | "fixed"
	Property string            `json:"property"`
	Rule     string            `json:"rule"`
	Site     string            `json:"site,omitempty"`
	Trigger  map[string]string `json:"trigger,omitempty"`
	What     string            `json:"what"`
	Replay   string            `json:"replay,omitempty"`
	Commit   string            `json:"commit,omitempty"`
}

var (
	knownOnce sync.Once
	known     []Finding
)

func loadKnown() {
	knownOnce.Do(func() {
		p := os.Getenv("VERIF_KNOWN")
		if p == "" {
			return // replays and ad-hoc runs tolerate nothing
		}
		bz, err := os.ReadFile(p)
		if err != nil {
			infra("read known findings: %v", err)
		}
		var f struct {
			Findings []Finding `json:"findings"`
		}
		if err := json.Unmarshal(bz, &f); err != nil {
			infra("parse known findings: %v", err)
		}
		for _, x := range f.Findings {
			if x.Status == "open" {
				known = append(known, x)
			}
		}
	})
}

// KnownOpen reports whether a violation with this signature is a listed open
// finding: same property, same rule, same call site (when the finding names
// one) and every trigger key of the finding present with the same value.
func KnownOpen(prop, rule, site string, trigger map[string]string) (string, bool) {
	loadKnown()
	for _, f := range known {
		if f.Property != prop || f.Rule != rule {
			continue
		}
		if f.Site != "" && f.Site != site {
			continue
		}
		ok := true
		for k, v := range f.Trigger {
			if trigger[k] != v {
				ok = false
			}
		}
		if ok {
			return f.ID, true
		}
	}
	return "", false
}

// Tolerate is called by an oracle instead of Fail for violations that do not
// corrupt later state: a listed open finding is counted and the case goes on,
// anything else fails the case.
func (s *Sim) Tolerate(rule, site string, trigger map[string]string, format string, args ...any) {
	if id, ok := KnownOpen(s.Prop, rule, site, trigger); ok {
		s.Excluded["known:"+id]++
		return
	}
	s.FailT(rule, site, trigger, format, args...)
}
