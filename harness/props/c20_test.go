package props

import (
	"fmt"
	"testing"

	"saoverif/chain"

	nodetypes "github.com/SaoNetwork/sao/x/node/types"
	sdk "github.com/cosmos/cosmos-sdk/types"
	"pgregory.net/rapid"
)

// ---- C20: super-node role ----

type C20Oracle struct {
	NopOracle
	Promotions, Demotions, ThirdParty, AfterFailedStaking int
	lastFailedStaking                                     bool
}

func (o *C20Oracle) Name() string { return "C20" }

// ratio returns the node's share of its declared validator's delegator shares (ok=false when undefined).
func stakeRatio(s *Sim, node nodetypes.Node) (sdk.Dec, bool) {
	if node.Validator == "" {
		return sdk.ZeroDec(), false
	}
	ctx := s.C.Ctx()
	val, err := sdk.ValAddressFromBech32(node.Validator)
	if err != nil {
		return sdk.ZeroDec(), false
	}
	acc, err := sdk.AccAddressFromBech32(node.Creator)
	if err != nil {
		return sdk.ZeroDec(), false
	}
	v, found := s.W.App.StakingKeeper.GetValidator(ctx, val)
	if !found || v.DelegatorShares.IsZero() {
		return sdk.ZeroDec(), false
	}
	d, found := s.W.App.StakingKeeper.GetDelegation(ctx, acc, val)
	if !found {
		return sdk.ZeroDec(), true
	}
	return d.Shares.Quo(v.DelegatorShares), true
}

func (o *C20Oracle) checkAll(s *Sim, where string, pre, post *chain.Snapshot, a *Action) {
	ctx := s.C.Ctx()
	theta := s.W.App.NodeKeeper.ShareThreshold(ctx)
	minCap := s.W.App.NodeKeeper.VstorageThreshold(ctx)
	for _, sp := range chain.SortedStr(post.Nodes) {
		n := post.Nodes[sp]
		was := uint32(0)
		if pre != nil {
			was = pre.Nodes[sp].Role
		}
		trig := map[string]string{"where": where}
		if a != nil {
			trig["kind"] = a.Kind
			trig["afterFailedStaking"] = fmt.Sprint(o.lastFailedStaking)
		}
		if n.Role == nodetypes.NODE_SUPER {
			ratio, ok := stakeRatio(s, n)
			pl := post.Pledges[sp]
			if !ok || ratio.LT(theta) {
				rule := "super-without-stake"
				if pre != nil && was != nodetypes.NODE_SUPER {
					rule = "promoted-without-stake"
				}
				s.FailT(rule, "", trig, "%s: node %s has the super role but its delegation to %s is %s of the validator's shares (threshold %s)", where, tail(sp), tail(n.Validator), ratio, theta)
			}
			if pl.TotalStorage < minCap {
				rule := "super-without-capacity"
				if pre != nil && was != nodetypes.NODE_SUPER {
					rule = "promoted-without-capacity"
				}
				s.FailT(rule, "", trig, "%s: node %s has the super role with %d bytes pledged (threshold %d)", where, tail(sp), pl.TotalStorage, minCap)
			}
			statusOK := n.Status&nodetypes.NODE_STATUS_SUPER_REQUIREMENT == nodetypes.NODE_STATUS_SUPER_REQUIREMENT
			if !statusOK && pre != nil && was != nodetypes.NODE_SUPER {
				s.FailT("promoted-without-status", "", trig, "%s: node %s promoted with status %d", where, tail(sp), n.Status)
			}
			if !statusOK && a != nil && a.Kind == "node_reset" && s.bech(a.Creator) == sp {
				s.FailT("super-after-own-reset-without-status", "", trig, "node %s keeps the super role after resetting its status to %d", tail(sp), n.Status)
			}
		}
		if pre != nil {
			if was != nodetypes.NODE_SUPER && n.Role == nodetypes.NODE_SUPER {
				o.Promotions++
				s.Label("c20-promotion")
				if a != nil && s.bech(a.Creator) != sp {
					o.ThirdParty++
					s.Label("c20-by-third-party")
				}
				if o.lastFailedStaking {
					o.AfterFailedStaking++
					s.Label("c20-after-failed-staking-tx")
				}
			}
			if was == nodetypes.NODE_SUPER && n.Role != nodetypes.NODE_SUPER {
				o.Demotions++
				s.Label("c20-demotion")
				if a != nil && s.bech(a.Creator) != sp {
					o.ThirdParty++
					s.Label("c20-by-third-party")
				}
			}
		}
	}
}

func (o *C20Oracle) AfterAction(s *Sim, a *Action, pre, post *chain.Snapshot, res *chain.TxResult) {
	o.checkAll(s, "after "+a.Kind, pre, post, a)
	switch a.Kind {
	case "delegate", "undelegate", "redelegate":
		o.lastFailedStaking = !res.OK
	}
}

func (o *C20Oracle) Boundary(s *Sim, sn *chain.Snapshot) { o.checkAll(s, "block boundary", nil, sn, nil) }

type c20World struct {
	nodes  []int
	thirds []int
}

func (w *c20World) aimAmount(t *rapid.T, s *Sim, delegator int, val int, isNode bool) int64 {
	ctx := s.C.Ctx()
	theta := s.W.App.NodeKeeper.ShareThreshold(ctx)
	v, found := s.W.App.StakingKeeper.GetValidator(ctx, s.W.ValAddrs[val])
	if !found {
		return 1000
	}
	T := v.DelegatorShares
	// pick a node of this validator to aim at
	var target *nodetypes.Node
	for _, i := range w.nodes {
		n, ok := s.Last.Nodes[s.bech(i)]
		if ok && (n.Validator == "" || n.Validator == s.W.ValAddrs[val].String()) {
			nn := n
			target = &nn
			if rapid.Bool().Draw(t, "pickTarget") {
				break
			}
		}
	}
	if target == nil || rapid.IntRange(0, 4).Draw(t, "unaimed") == 0 {
		return rapid.SampledFrom([]int64{1, 1000, 50_000_000, 150_000_000, 400_000_000}).Draw(t, "amount")
	}
	nShares := sdk.ZeroDec()
	if d, ok := s.W.App.StakingKeeper.GetDelegation(ctx, sdk.MustAccAddressFromBech32(target.Creator), s.W.ValAddrs[val]); ok {
		nShares = d.Shares
	}
	var x sdk.Dec
	if isNode && s.bech(delegator) == target.Creator {
		// (n+y)/(T+y) = theta  =>  y = (theta*T - n)/(1-theta)
		x = theta.Mul(T).Sub(nShares).Quo(sdk.OneDec().Sub(theta))
	} else {
		// n/(T+x) = theta  =>  x = n/theta - T
		x = nShares.Quo(theta).Sub(T)
	}
	if !T.IsZero() && !v.Tokens.IsZero() {
		// x is in shares; a (un)delegation is given in tokens (they differ once the validator was slashed)
		x = x.MulInt(v.Tokens).Quo(T)
	}
	base := x.TruncateInt64()
	amt := base + int64(rapid.IntRange(-2, 2).Draw(t, "offset"))
	if amt <= 0 {
		amt = int64(rapid.IntRange(1, 1000).Draw(t, "small"))
	}
	return amt
}

// clearHookResidue makes a case independent of what earlier cases of this process left in the
// node keeper's package-level hook variable (whether such residue exists is C03's question):
// any validator-level hook call resets it; it is made on a discarded fork.
func clearHookResidue(s *Sim) {
	f := s.C.Fork()
	if len(s.W.ValAddrs) > 0 {
		s.W.App.NodeKeeper.Hooks().AfterValidatorBonded(f.Ctx(), nil, s.W.ValAddrs[0])
	}
}

func c20Property(t *rapid.T) {
	o := &C20Oracle{}
	s := NewSim(t, "C20", o)
	s.C.Full = true
	clearHookResidue(s)
	aborted := RunCase(func() {
		w := &c20World{nodes: []int{3, 4, 5}, thirds: []int{8, 9}}
		nn := rapid.IntRange(2, 3).Draw(t, "nodes")
		w.nodes = w.nodes[:nn]
		for _, n := range w.nodes {
			s.Do(NewAction("node_create", n))
			r := NewAction("node_reset", n)
			r.Status = StatusFull
			if rapid.Bool().Draw(t, "declareVal") {
				r.Val = rapid.IntRange(0, len(s.W.ValAddrs)-1).Draw(t, "val")
			}
			s.Do(r)
			v := NewAction("add_vstorage", n)
			v.Size = uint64(rapid.SampledFrom([]int{9_000_000, 10_000_000, 20_000_000, 20_000_000}).Draw(t, "capacity"))
			s.Do(v)
		}
		// most nodes start with a delegation around the threshold
		for _, n := range w.nodes {
			if rapid.IntRange(0, 3).Draw(t, "initialStake") > 0 {
				a := NewAction("delegate", n)
				a.Target = rapid.IntRange(0, len(s.W.ValAddrs)-1).Draw(t, "val")
				if nd, ok := s.Last.Nodes[s.bech(n)]; ok && nd.Validator != "" {
					for vi, va := range s.W.ValAddrs {
						if va.String() == nd.Validator {
							a.Target = vi
						}
					}
				}
				a.Amount = w.aimAmount(t, s, n, a.Target, true)
				s.Do(a)
			}
		}
		steps := rapid.IntRange(3, 40).Draw(t, "steps")
		slashes := 0
		for i := 0; i < steps; i++ {
			all := append(append([]int{}, w.nodes...), w.thirds...)
			switch rapid.IntRange(0, 12).Draw(t, "step") {
			case 12:
				// a validator is slashed (tokens no longer equal delegator shares), at most twice per case
				if slashes >= 2 {
					continue
				}
				slashes++
				a := NewAction("slash", 0)
				a.Target = rapid.IntRange(0, len(s.W.ValAddrs)-1).Draw(t, "slashedVal")
				a.Extra = map[string]string{"fraction": rapid.SampledFrom([]string{"0.05", "0.01", "0.5"}).Draw(t, "fraction")}
				if rapid.IntRange(0, 3).Draw(t, "jail") == 0 {
					a.Extra["jail"] = "1"
				}
				if s.Do(a).OK {
					s.Label("c20-validator-slashed")
				}
			case 0, 1, 2:
				d := rapid.SampledFrom(all).Draw(t, "delegator")
				a := NewAction("delegate", d)
				a.Target = rapid.IntRange(0, len(s.W.ValAddrs)-1).Draw(t, "val")
				a.Amount = w.aimAmount(t, s, d, a.Target, d < 8)
				s.Do(a)
			case 3:
				// a failing delegation by someone who already delegates (more than its balance), or to an unknown validator
				d := rapid.SampledFrom(all).Draw(t, "delegator")
				a := NewAction("delegate", d)
				a.Target = rapid.IntRange(0, len(s.W.ValAddrs)-1).Draw(t, "val")
				a.Amount = 9_000_000_000_000_000
				if rapid.IntRange(0, 3).Draw(t, "unknownVal") == 0 {
					a.Target, a.Amount = 99, 1000
				}
				s.Do(a)
			case 4, 5:
				d := rapid.SampledFrom(all).Draw(t, "delegator")
				a := NewAction("undelegate", d)
				a.Target = rapid.IntRange(0, len(s.W.ValAddrs)-1).Draw(t, "val")
				a.Amount = w.aimAmount(t, s, d, a.Target, d < 8)
				if dl, ok := s.W.App.StakingKeeper.GetDelegation(s.C.Ctx(), s.acct(d).Addr, s.W.ValAddrs[a.Target]); ok {
					max := dl.Shares.TruncateInt64()
					switch rapid.IntRange(0, 3).Draw(t, "undelClass") {
					case 0:
						a.Amount = max // everything: the delegation is removed
					case 1:
						a.Amount = max + 1
					default:
						if a.Amount > max {
							a.Amount = max/2 + 1
						}
					}
				}
				s.Do(a)
			case 6:
				if len(s.W.ValAddrs) < 2 {
					continue
				}
				d := rapid.SampledFrom(all).Draw(t, "delegator")
				a := NewAction("redelegate", d)
				a.Target = rapid.IntRange(0, len(s.W.ValAddrs)-1).Draw(t, "valSrc")
				a.Target2 = (a.Target + 1) % len(s.W.ValAddrs)
				a.Amount = rapid.SampledFrom([]int64{1, 1000, 60_000_000, 130_000_000}).Draw(t, "amount")
				s.Do(a)
			case 7, 8:
				n := rapid.SampledFrom(w.nodes).Draw(t, "node")
				r := NewAction("node_reset", n)
				r.Status = rapid.SampledFrom([]uint32{StatusFull, StatusFull, StatusFull &^ nodetypes.NODE_STATUS_SERVE_GATEWAY, nodetypes.NODE_STATUS_ONLINE, StatusFull | nodetypes.NODE_STATUS_SERVE_INDEXING, 0}).Draw(t, "status")
				if rapid.Bool().Draw(t, "setVal") {
					r.Val = rapid.IntRange(0, len(s.W.ValAddrs)-1).Draw(t, "val")
				}
				s.Do(r)
			case 9:
				n := rapid.SampledFrom(w.nodes).Draw(t, "node")
				k := rapid.SampledFrom([]string{"add_vstorage", "remove_vstorage"}).Draw(t, "vk")
				a := NewAction(k, n)
				pl := s.Last.Pledges[s.bech(n)]
				a.Size = uint64(rapid.SampledFrom([]int64{1_000_000, 5_000_000, 10_000_000, pl.TotalStorage - 10_000_000 + 1_000_000, pl.TotalStorage - 9_000_000}).Draw(t, "size"))
				if int64(a.Size) <= 0 {
					a.Size = 1_000_000
				}
				s.Do(a)
			default:
				adv := NewAction("advance", 0)
				adv.Blocks = int64(rapid.SampledFrom([]int{1, 2, 21, 25}).Draw(t, "blocks"))
				s.Do(adv)
			}
		}
	})
	if aborted != "" {
		stats.Abort(aborted)
		return
	}
	nt := o.Promotions > 0 && o.Demotions > 0 && o.ThirdParty > 0
	stats.Record(s.HistHash(), nt, s.Labels, s.Excluded, func() any { return s.Summary() })
}

func TestC20(t *testing.T) { runRapid(t, "TestC20", c20Property) }

func init() {
	replayers["TestC20"] = func(t TB, v *Violation) {
		s := NewSim(t, "C20", &C20Oracle{})
		s.C.Full = true
		clearHookResidue(s)
		replayHistory(s, v.History)
	}
}
