package props

import (
	"fmt"

	"saoverif/chain"

	ordertypes "github.com/SaoNetwork/sao/x/order/types"
	sdk "github.com/cosmos/cosmos-sdk/types"
)

// C04Oracle: reference ledger of order payments. Every order is charged once, exactly the
// quoted price, and that money is only paid out as income for bytes x blocks actually
// stored, or refunded to the client side; charged = income + refunds up to dust.
type C04Oracle struct {
	NopOracle
	orders    map[uint64]*c4Order
	open      map[uint64]*c4Interval // by shard id: the interval currently running
	closed    []*c4Interval
	claimed   map[string]sdk.Dec // market payouts per provider
	providers map[string]bool
	Settled   int // orders that were charged and ended
	Classes   map[string]int
	dustBound int64
}

type c4Order struct {
	id        uint64
	dataId    string
	payer     string
	ownerPay  string
	charged   sdk.Int
	refunded  sdk.Int
	ended     bool
	unattrib  bool // a refund could not be attributed to this order alone: excluded from the final equation
	settles   int  // shard settlements (for the dust tolerance)
	kind      string
}

type c4Interval struct {
	shard uint64
	order uint64
	sp    string
	size  uint64
	start int64
	end   int64
}

var unitPrice = sdk.NewDecWithPrec(1, 6)

func NewC04() *C04Oracle {
	return &C04Oracle{orders: map[uint64]*c4Order{}, open: map[uint64]*c4Interval{}, claimed: map[string]sdk.Dec{}, providers: map[string]bool{}, Classes: map[string]int{}}
}

func (o *C04Oracle) Name() string { return "C04" }

func quote(size uint64, replica int32, duration uint64) sdk.Int {
	if size == 0 {
		size = 1
	}
	d := unitPrice.MulInt64(int64(size)).MulInt64(int64(replica)).MulInt64(int64(duration))
	return d.Ceil().TruncateInt()
}

func (o *C04Oracle) incomeOfOrder(id uint64, h int64) sdk.Dec {
	sum := sdk.ZeroDec()
	add := func(iv *c4Interval) {
		if iv.order != id {
			return
		}
		end := iv.end
		if end == 0 || end > h {
			end = h
		}
		if end > iv.start {
			sum = sum.Add(unitPrice.MulInt64(int64(iv.size)).MulInt64(end - iv.start))
		}
	}
	for _, iv := range o.closed {
		add(iv)
	}
	for _, iv := range o.open {
		add(iv)
	}
	return sum
}

func (o *C04Oracle) incomeOfProvider(sp string, h int64) (sdk.Dec, int) {
	sum := sdk.ZeroDec()
	n := 0
	add := func(iv *c4Interval) {
		if iv.sp != sp {
			return
		}
		n++
		end := iv.end
		if end == 0 || end > h {
			end = h
		}
		if end > iv.start {
			sum = sum.Add(unitPrice.MulInt64(int64(iv.size)).MulInt64(end - iv.start))
		}
	}
	for _, iv := range o.closed {
		add(iv)
	}
	for _, iv := range o.open {
		add(iv)
	}
	return sum, n
}

func payAddrOf(sn *chain.Snapshot, did string) string {
	for _, p := range sn.Did.PaymentAddressList {
		if p.Did == did {
			return p.Address
		}
	}
	return ""
}

// clients are the tracked accounts that are not providers (payers, owners, sponsors, bystanders).
func (o *C04Oracle) clientDelta(s *Sim, pre, post *chain.Snapshot) (sdk.Int, map[string]sdk.Int) {
	sum := sdk.ZeroInt()
	per := map[string]sdk.Int{}
	for _, acc := range s.W.Accounts {
		if o.providers[acc.Bech] {
			continue
		}
		d := post.Bal[acc.Bech].Sub(pre.Bal[acc.Bech])
		if !d.IsZero() {
			per[acc.Bech] = d
			sum = sum.Add(d)
		}
	}
	return sum, per
}

func escrowDelta(pre, post *chain.Snapshot) sdk.Int {
	d := sdk.ZeroInt()
	for _, m := range []string{"mod:order", "mod:market", "mod:did"} {
		d = d.Add(post.Bal[m].Sub(pre.Bal[m]))
	}
	return d
}

// track updates shard intervals from a state change at height h.
func (o *C04Oracle) track(pre, post *chain.Snapshot, h int64) {
	for _, id := range chain.SortedU64(post.Shards) {
		sh := post.Shards[id]
		if sh.Status != ordertypes.ShardCompleted {
			continue
		}
		iv, running := o.open[id]
		if !running {
			o.open[id] = &c4Interval{shard: id, order: sh.OrderId, sp: sh.Sp, size: sh.Size_, start: h}
			if ord := o.orders[sh.OrderId]; ord != nil {
				ord.settles++
			}
			continue
		}
		if iv.order != sh.OrderId {
			// rotation to the next paid period
			iv.end = h
			o.closed = append(o.closed, iv)
			o.open[id] = &c4Interval{shard: id, order: sh.OrderId, sp: sh.Sp, size: sh.Size_, start: h}
			if ord := o.orders[sh.OrderId]; ord != nil {
				ord.settles++
			}
		}
	}
	for _, id := range chain.SortedU64(o.open) {
		if sh, ok := post.Shards[id]; ok && sh.Status == ordertypes.ShardCompleted {
			continue
		}
		iv := o.open[id]
		iv.end = h
		o.closed = append(o.closed, iv)
		delete(o.open, id)
	}
}

// settle handles orders that disappeared or shrank between pre and post (one step).
func (o *C04Oracle) settle(s *Sim, where string, pre, post *chain.Snapshot, h int64, perClient map[string]sdk.Int) {
	trig := map[string]string{"where": where}
	var ended, shrunk []*c4Order
	for _, id := range chain.SortedU64(pre.Orders) {
		rec := o.orders[id]
		if rec == nil {
			continue
		}
		n, still := post.Orders[id]
		if !still {
			ended = append(ended, rec)
			continue
		}
		po := pre.Orders[id]
		if n.Amount.Amount.LT(po.Amount.Amount) || n.Replica < po.Replica {
			shrunk = append(shrunk, rec)
		}
	}
	if len(ended)+len(shrunk) == 0 {
		// nobody on the client side may gain in a step that ends nothing
		for acc, d := range perClient {
			if d.IsPositive() {
				s.FailT("client-gain-without-order-end", "", trig, "%s: account %s gained %s although no order ended or shrank", where, tail(acc), d)
			}
		}
		return
	}
	// recipients: only payers / owner payment addresses of the affected orders
	allowed := map[string]bool{}
	for _, r := range append(append([]*c4Order{}, ended...), shrunk...) {
		allowed[r.payer] = true
		allowed[r.ownerPay] = true
	}
	got := sdk.ZeroInt()
	for acc, d := range perClient {
		if d.IsPositive() {
			if !allowed[acc] {
				s.FailT("refund-to-stranger", "", trig, "%s: account %s gained %s but is neither payer nor owner payment address of an order that ended", where, tail(acc), d)
			}
			got = got.Add(d)
		}
	}
	// expected refunds: charged - income - already refunded, summed over ended orders;
	// for shrunk orders the price of the dropped replicas
	want := sdk.ZeroDec()
	tol := int64(1)
	for _, r := range ended {
		inc := o.incomeOfOrder(r.id, h)
		want = want.Add(sdk.NewDecFromInt(r.charged.Sub(r.refunded)).Sub(inc))
		tol += int64(r.settles) + 1
	}
	for _, r := range shrunk {
		po, n := pre.Orders[r.id], post.Orders[r.id]
		dropped := int64(po.Replica - n.Replica)
		want = want.Add(unitPrice.MulInt64(int64(po.Size_)).MulInt64(dropped).MulInt64(int64(po.Duration)))
		tol += dropped + 1
	}
	diff := sdk.NewDecFromInt(got).Sub(want)
	if diff.Abs().GT(sdk.NewDec(tol)) {
		kinds := ""
		for _, r := range ended {
			kinds += fmt.Sprintf(" order %d(%s charged %s refunded-before %s income %s)", r.id, r.kind, r.charged, r.refunded, o.incomeOfOrder(r.id, h))
		}
		for _, r := range shrunk {
			kinds += fmt.Sprintf(" order %d shrank", r.id)
		}
		rule := "refund-mismatch"
		if diff.IsNegative() {
			rule = "refund-too-small"
		} else {
			rule = "refund-too-large"
		}
		tr := map[string]string{"where": where}
		for _, r := range ended {
			if r.kind == "renew" && o.incomeOfOrder(r.id, h).IsZero() {
				tr["unstartedRenewal"] = "true"
			}
		}
		s.FailT(rule, "", tr, "%s at h=%d: client side received %s, expected %s (charged - income earned - earlier refunds) within %d coins;%s", where, h, got, want, tol, kinds)
	}
	// attribute: the step total matched, so each shrunk order received its own expected share
	if len(ended)+len(shrunk) == 1 {
		if len(ended) == 1 {
			ended[0].refunded = ended[0].refunded.Add(got)
		} else {
			shrunk[0].refunded = shrunk[0].refunded.Add(got)
		}
	} else {
		for _, r := range shrunk {
			po, n := pre.Orders[r.id], post.Orders[r.id]
			dropped := int64(po.Replica - n.Replica)
			r.refunded = r.refunded.Add(unitPrice.MulInt64(int64(po.Size_)).MulInt64(dropped).MulInt64(int64(po.Duration)).TruncateInt())
		}
	}
	for _, r := range ended {
		r.ended = true
		o.Settled++
		s.Label("c04-settled-" + where)
		if r.kind == "renew" {
			s.Label("c04-settled-renewal")
		}
		if r.payer != r.ownerPay {
			s.Label("c04-settled-sponsored")
		}
	}
}

func (o *C04Oracle) AfterAction(s *Sim, a *Action, pre, post *chain.Snapshot, res *chain.TxResult) {
	h := s.C.Height
	for sp := range post.Pledges {
		o.providers[sp] = true
	}
	for sp := range post.Nodes {
		o.providers[sp] = true
	}
	trig := map[string]string{"kind": a.Kind}
	sumClients, perClient := o.clientDelta(s, pre, post)
	if !res.OK {
		if !sumClients.IsZero() || !escrowDelta(pre, post).IsZero() {
			s.FailT("failed-tx-moved-funds", "", trig, "failed %s moved funds (clients %s, escrows %s)", a.Kind, sumClients, escrowDelta(pre, post))
		}
		return
	}
	switch a.Kind {
	case "bank_send", "delegate", "undelegate", "redelegate":
		return
	case "claim":
		me := s.bech(a.Creator)
		paid := pre.Bal["mod:market"].Sub(post.Bal["mod:market"])
		if paid.IsNegative() {
			s.FailT("claim-fed-market", "", trig, "claim increased the market escrow by %s", paid.Neg())
		}
		cur, ok := o.claimed[me]
		if !ok {
			cur = sdk.ZeroDec()
		}
		o.claimed[me] = cur.Add(sdk.NewDecFromInt(paid))
		if len(perClient) != 0 {
			s.FailT("claim-paid-someone-else", "", trig, "claim by %s changed client balances %v", tail(me), perClient)
		}
		o.checkIncome(s, me, post, h)
		return
	}
	// escrow money only moves between the escrows and the client side
	if !escrowDelta(pre, post).Add(sumClients).IsZero() {
		s.FailT("escrow-client-imbalance", "", trig, "%s: order+market+did escrows changed by %s but client accounts by %s", a.Kind, escrowDelta(pre, post), sumClients)
	}
	switch a.Kind {
	case "store":
		ord, ok := post.Orders[a.Order]
		if !ok {
			return
		}
		want := quote(a.Size, a.Replica, a.Duration)
		ownerPay := payAddrOf(pre, ord.Owner)
		payer := ownerPay
		if a.PayDid >= 0 {
			payer = payAddrOf(pre, s.didStr(a.PayDid))
		}
		for acc, d := range perClient {
			if acc != payer {
				s.FailT("charged-wrong-account", "", trig, "store of order %d changed the balance of %s by %s; the payer is %s", a.Order, tail(acc), d, tail(payer))
			}
		}
		if got := perClient[payer]; got.IsNil() || !got.Neg().Equal(want) {
			s.FailT("charge-not-quoted-price", "", trig, "order %d: payer %s debited %v, quoted price ceil(1e-6*%d*%d*%d) = %s", a.Order, tail(payer), got, a.Size, a.Replica, a.Duration, want)
		}
		if _, dup := o.orders[a.Order]; dup {
			s.FailT("order-id-charged-twice", "", trig, "order id %d charged twice", a.Order)
		}
		o.orders[a.Order] = &c4Order{id: a.Order, dataId: ord.DataId, payer: payer, ownerPay: ownerPay, charged: want, refunded: sdk.ZeroInt(), kind: "store"}
	case "renew":
		total := sdk.ZeroInt()
		var payer string
		for _, id := range chain.SortedU64(post.Orders) {
			if _, old := pre.Orders[id]; old {
				continue
			}
			ord := post.Orders[id]
			if ord.Operation != 3 {
				continue
			}
			want := quote(ord.Size_, ord.Replica, a.Duration)
			payer = payAddrOf(pre, ord.Owner)
			total = total.Add(want)
			o.orders[id] = &c4Order{id: id, dataId: ord.DataId, payer: payer, ownerPay: payer, charged: want, refunded: sdk.ZeroInt(), kind: "renew"}
		}
		for acc, d := range perClient {
			if acc != payer {
				s.FailT("charged-wrong-account", "", trig, "renew changed the balance of %s by %s; the payer is %s", tail(acc), d, tail(payer))
			}
		}
		got := perClient[payer]
		if got.IsNil() {
			got = sdk.ZeroInt()
		}
		if !got.Neg().Equal(total) {
			s.FailT("charge-not-quoted-price", "", trig, "renew: payer %s debited %s, quoted prices sum to %s", tail(payer), got.Neg(), total)
		}
	default:
		o.track(pre, post, h)
		o.settle(s, a.Kind, pre, post, h, perClient)
		return
	}
	o.track(pre, post, h)
}

func (o *C04Oracle) checkIncome(s *Sim, sp string, sn *chain.Snapshot, h int64) {
	model, n := o.incomeOfProvider(sp, h)
	have, ok := o.claimed[sp]
	if !ok {
		have = sdk.ZeroDec()
	}
	if w, ok := sn.Workers[sp]; ok {
		have = have.Add(decOr0(w.Reward.Amount)).Add(decOr0(w.IncomePerSecond.Amount).MulInt64(h - w.LastRewardAt))
	}
	if have.Sub(model).Abs().GT(sdk.NewDec(int64(n + 1))) {
		rule := "income-too-small"
		if have.GT(model) {
			rule = "income-too-large"
		}
		s.FailT(rule, "", nil, "h=%d provider %s: market payouts + unclaimed income = %s, but bytes x blocks it stored are worth %s (%d holding intervals)", h, tail(sp), have, model, n)
	}
}

func (o *C04Oracle) Step(s *Sim, step string, pre, post *chain.Snapshot) {
	if step != "sao.EndBlocker" {
		return
	}
	for sp := range post.Nodes {
		o.providers[sp] = true
	}
	h := post.Height
	sumClients, perClient := o.clientDelta(s, pre, post)
	if !escrowDelta(pre, post).Add(sumClients).IsZero() {
		s.FailT("escrow-client-imbalance", "", map[string]string{"kind": "end-blocker"}, "end-blocker h=%d: order+market+did escrows changed by %s but client accounts by %s", h, escrowDelta(pre, post), sumClients)
	}
	o.track(pre, post, h)
	o.settle(s, "end-blocker", pre, post, h, perClient)
}

// Final is called at the end of a case, after everything drained and every provider claimed.
func (o *C04Oracle) Final(s *Sim) {
	sn := s.Last
	h := sn.Height
	if len(sn.Orders) != 0 || len(sn.Shards) != 0 {
		return // not quiescent
	}
	for sp := range o.providers {
		o.checkIncome(s, sp, sn, h)
	}
	left := sn.Bal["mod:order"].Add(sn.Bal["mod:market"])
	unclaimed := sdk.ZeroDec()
	for _, w := range sn.Workers {
		unclaimed = unclaimed.Add(decOr0(w.Reward.Amount))
	}
	bound := int64(len(o.orders) + len(o.closed) + len(o.providers) + 1)
	stuck := sdk.NewDecFromInt(left).Sub(unclaimed)
	if stuck.GT(sdk.NewDec(bound)) {
		s.FailT("funds-stuck-in-escrow", "", nil, "h=%d every order ended and every provider claimed, yet order+market escrows hold %s (unclaimed worker rewards %s); dust bound %d", h, left, unclaimed, bound)
	}
	s.Label("c04-quiescent")
}
