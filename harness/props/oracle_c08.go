package props

import (
	"fmt"
	"math/big"

	"saoverif/chain"

	nodetypes "github.com/SaoNetwork/sao/x/node/types"
	sdk "github.com/cosmos/cosmos-sdk/types"
)

var totalRewardCap = sdk.NewInt(400000000000000)

// refAge is the halving age: floor(log2(T / (T - minted))) on the integer quotient.
func refAge(totalReward sdk.Int) (uint, bool) {
	remain := totalRewardCap.Sub(totalReward)
	if !remain.IsPositive() {
		return 0, false
	}
	q := new(big.Int).Quo(totalRewardCap.BigInt(), remain.BigInt())
	return uint(q.BitLen() - 1), true
}

// C08Oracle: block-reward accounting.
type C08Oracle struct {
	NopOracle
	s          *Sim
	supplyPrev sdk.Int // supply after the previous begin-blocker (nothing else may change it)
	havePrev   bool
	pool0      nodetypes.Pool
	supply0    sdk.Int
	params     nodetypes.Params
	caps       map[string]int64   // capacity per provider as of the last action
	share      map[string]sdk.Dec // model: sum over mints of m * cap_p / total
	claimed    map[string]sdk.Int
	blocks     int64
	Mints      int
	CapChanges int
	Claims     int
	pending    *pendingFail
	baseReward *sdk.Int // Pool.TotalReward installed before the history started
}

type pendingFail struct {
	rule, msg string
}

func NewC08() *C08Oracle {
	return &C08Oracle{caps: map[string]int64{}, share: map[string]sdk.Dec{}, claimed: map[string]sdk.Int{}}
}

func (o *C08Oracle) Name() string { return "C08" }

// Attach installs the per-block hook (cheap reads only; failures are raised on the test goroutine afterwards).
func (o *C08Oracle) Attach(s *Sim) {
	o.s = s
	s.EveryStep = func(step string, before bool) {
		if step != "node.BeginBlocker" {
			return
		}
		ctx := s.C.Ctx()
		supply := s.W.App.BankKeeper.GetSupply(ctx, s.W.Cfg.Denom).Amount
		if before {
			o.supply0 = supply
			o.pool0, _ = s.W.App.NodeKeeper.GetPool(ctx)
			o.params = s.W.App.NodeKeeper.GetParams(ctx)
			if o.havePrev && !supply.Equal(o.supplyPrev) && o.pending == nil {
				o.pending = &pendingFail{"supply-changed-outside-reward", fmt.Sprintf("h=%d total supply went from %s to %s between two reward steps (messages / end-blockers)", s.C.Height, o.supplyPrev, supply)}
			}
			return
		}
		o.supplyPrev, o.havePrev = supply, true
		pool1, _ := s.W.App.NodeKeeper.GetPool(ctx)
		o.afterMint(s.C.Height, supply.Sub(o.supply0), pool1)
	}
}

func (o *C08Oracle) fail(rule, format string, args ...any) {
	if o.pending == nil {
		o.pending = &pendingFail{rule, fmt.Sprintf(format, args...)}
	}
}

func (o *C08Oracle) afterMint(h int64, m sdk.Int, pool1 nodetypes.Pool) {
	p0 := o.pool0
	o.blocks++
	if m.IsNegative() {
		o.fail("supply-shrank", "h=%d the reward step reduced the supply by %s", h, m.Neg())
		return
	}
	if !intOr0(pool1.TotalReward.Amount).Sub(intOr0(p0.TotalReward.Amount)).Equal(m) {
		o.fail("reward-counter-mismatch", "h=%d minted %s but Pool.TotalReward went from %s to %s", h, m, p0.TotalReward.Amount, pool1.TotalReward.Amount)
	}
	if m.IsZero() {
		return
	}
	o.Mints++
	if intOr0(p0.TotalPledged.Amount).IsZero() {
		o.fail("minted-without-pledge", "h=%d minted %s although nothing is pledged", h, m)
	}
	age, ok := refAge(intOr0(p0.TotalReward.Amount))
	if ok {
		cap := new(big.Int).Rsh(o.params.BlockReward.Amount.BigInt(), age)
		if m.BigInt().Cmp(cap) > 0 {
			o.fail("minted-above-schedule", "h=%d minted %s > block reward %s >> age %d", h, m, o.params.BlockReward.Amount, age)
		}
	}
	if intOr0(p0.TotalPledged.Amount).LT(o.params.Baseline.Amount) {
		apy, err := sdk.NewDecFromStr(o.params.AnnualPercentageYield)
		if err == nil {
			lim := sdk.NewDecFromInt(p0.TotalPledged.Amount).Mul(apy).QuoInt64(o.params.HalvingPeriod / 2).TruncateInt()
			if m.GT(lim) {
				o.fail("minted-above-baseline-rate", "h=%d minted %s while pledged %s < baseline %s; limit %s", h, m, p0.TotalPledged.Amount, o.params.Baseline.Amount, lim)
			}
		}
	}
	// model of the pro-rata share
	total := int64(0)
	for _, c := range o.caps {
		total += c
	}
	if total > 0 {
		for sp, c := range o.caps {
			if c == 0 {
				continue
			}
			cur, ok := o.share[sp]
			if !ok {
				cur = sdk.ZeroDec()
			}
			o.share[sp] = cur.Add(sdk.NewDecFromInt(m).MulInt64(c).QuoInt64(total))
		}
	}
}

func claimable(sn *chain.Snapshot, sp string) sdk.Dec {
	p, ok := sn.Pledges[sp]
	if !ok {
		return sdk.ZeroDec()
	}
	c := decOr0(p.Reward.Amount)
	if sn.PoolFound && p.TotalStorage > 0 {
		c = c.Add(decOr0(sn.Pool.AccRewardPerByte.Amount).MulInt64(p.TotalStorage).Sub(decOr0(p.RewardDebt.Amount)))
	}
	return c
}

func (o *C08Oracle) raise(s *Sim) {
	if o.pending != nil {
		p := o.pending
		o.pending = nil
		s.FailT(p.rule, "", nil, "%s", p.msg)
	}
}

func (o *C08Oracle) Boundary(s *Sim, sn *chain.Snapshot) { o.raise(s) }

func (o *C08Oracle) AfterAction(s *Sim, a *Action, pre, post *chain.Snapshot, res *chain.TxResult) {
	o.raise(s)
	if !post.Supply.Equal(pre.Supply) && a.Kind != "advance" && a.Kind != "seed" {
		s.FailT("supply-changed-by-message", "", map[string]string{"kind": a.Kind}, "%s changed the total supply from %s to %s", a.Kind, pre.Supply, post.Supply)
	}
	// capacities for the next mints
	changed := false
	for sp, p := range post.Pledges {
		if o.caps[sp] != p.TotalStorage {
			changed = true
		}
		o.caps[sp] = p.TotalStorage
	}
	if changed && o.Mints > 0 {
		o.CapChanges++
	}
	if a.Kind == "claim" && res.OK {
		me := s.bech(a.Creator)
		o.Claims++
		paid := pre.Bal["mod:node"].Sub(post.Bal["mod:node"])
		want := claimable(pre, me).TruncateInt()
		debtRepaid := debtOf(pre, me).Sub(debtOf(post, me))
		if debtRepaid.IsZero() && !paid.Equal(want) {
			s.FailT("claim-not-whole-coin-part", "", nil, "claim by %s paid %s from the node escrow; its accrued share was %s (whole-coin part %s)", tail(me), paid, claimable(pre, me), want)
		}
		cur, ok := o.claimed[me]
		if !ok {
			cur = sdk.ZeroInt()
		}
		o.claimed[me] = cur.Add(want)
		// own share only: claimed so far + still claimable = model share
		have := sdk.NewDecFromInt(o.claimed[me]).Add(claimable(post, me))
		model, ok := o.share[me]
		if !ok {
			model = sdk.ZeroDec()
		}
		tol := sdk.NewDec(1).Add(sdk.NewDecWithPrec(1, 18).MulInt64(o.blocks).MulInt64(maxI64(o.caps[me], 1)))
		if have.Sub(model).Abs().GT(tol) {
			rule := "share-too-small"
			if have.GT(model) {
				rule = "share-too-large"
			}
			s.FailT(rule, "", nil, "provider %s: claimed %s + claimable %s = %s, pro-rata share of the mints is %s (tolerance %s)", tail(me), o.claimed[me], claimable(post, me), have, model, tol)
		}
	}
	// never over-claimed in total
	sum := sdk.ZeroDec()
	for _, c := range o.claimed {
		sum = sum.Add(sdk.NewDecFromInt(c))
	}
	for sp := range post.Pledges {
		c := claimable(post, sp)
		if c.IsPositive() {
			sum = sum.Add(c)
		}
	}
	minted := sdk.NewDecFromInt(intOr0(post.Pool.TotalReward.Amount))
	if base := o.baseReward; base != nil {
		minted = minted.Sub(sdk.NewDecFromInt(*base))
	}
	if sum.GT(minted.Add(sdk.NewDec(int64(len(post.Pledges) + 1)))) {
		s.FailT("over-claimed", "", nil, "claimed + claimable = %s exceeds the total minted %s", sum, minted)
	}
}

func maxI64(a, b int64) int64 {
	if a > b {
		return a
	}
	return b
}
