package props

import (
	"fmt"

	"saoverif/chain"

	didtypes "github.com/SaoNetwork/sao/x/did/types"
	nodetypes "github.com/SaoNetwork/sao/x/node/types"
	saotypes "github.com/SaoNetwork/sao/x/sao/types"
	"github.com/cosmos/cosmos-sdk/crypto/keys/ed25519"
	"github.com/cosmos/cosmos-sdk/crypto/keys/secp256k1"
	sdk "github.com/cosmos/cosmos-sdk/types"
	banktypes "github.com/cosmos/cosmos-sdk/x/bank/types"
	govv1beta1 "github.com/cosmos/cosmos-sdk/x/gov/types/v1beta1"
	paramproposal "github.com/cosmos/cosmos-sdk/x/params/types/proposal"
	stakingtypes "github.com/cosmos/cosmos-sdk/x/staking/types"
)

// Action is one step of a history. It is plain data: histories are recorded,
// written to replay files and re-executed without the generator.
type Action struct {
	Kind string `json:"kind"`

	// principals (indexes into World.Accounts / Sim.Dids; -1 = none)
	Creator   int `json:"creator"`             // tx signer account
	MsgProv   int `json:"msgProv,omitempty"`   // msg.Provider account (-1: same as Creator)
	PropProv  int `json:"propProv,omitempty"`  // proposal.Provider account
	Owner     int `json:"owner,omitempty"`     // DID index of proposal.Owner
	Signer    int `json:"signer,omitempty"`    // DID index whose key signs (default Owner)
	PayDid    int `json:"payDid,omitempty"`    // DID index of the sponsor (-1 none)
	Target    int `json:"target,omitempty"`    // second account (bank send, accused provider, validator index)
	Target2   int `json:"target2,omitempty"`   // redelegate destination
	KidOver   string `json:"kidOver,omitempty"`   // kid override ("" = honest kid of Signer)
	Tamper    string `json:"tamper,omitempty"`    // field altered after signing
	OwnerOver string `json:"ownerOver,omitempty"` // literal proposal.Owner override

	// proposal / message fields
	DataId   string   `json:"dataId,omitempty"`
	Commit   string   `json:"commit,omitempty"`
	Alias    string   `json:"alias,omitempty"`
	Cid      string   `json:"cid,omitempty"`
	Op       uint32   `json:"op,omitempty"`
	Size     uint64   `json:"size,omitempty"`
	Replica  int32    `json:"replica,omitempty"`
	Duration uint64   `json:"duration,omitempty"`
	Timeout  int32    `json:"timeout,omitempty"`
	Order    uint64   `json:"order,omitempty"`
	Data     []string `json:"data,omitempty"`
	RO       []int    `json:"ro,omitempty"` // DID indexes
	RW       []int    `json:"rw,omitempty"`
	Status   uint32   `json:"status,omitempty"`
	TxAddrs  []int    `json:"txAddrs,omitempty"`
	Val      int      `json:"val,omitempty"` // validator index for reset (-1 none)
	Amount   int64    `json:"amount,omitempty"`
	Blocks   int64    `json:"blocks,omitempty"`
	Seed     []byte   `json:"seed,omitempty"`
	SeedSet  bool     `json:"seedSet,omitempty"`
	Faults   []FaultEntry `json:"faults,omitempty"`
	Params   *nodetypes.Params `json:"params,omitempty"`
	Ts       uint64   `json:"ts,omitempty"`
	Nodes    []NodeSpec `json:"nodes,omitempty"`
	Round    int      `json:"round,omitempty"` // super-node cursor to install (-1: leave unset)
	Ignore   []int    `json:"ignore,omitempty"`
	Count    int      `json:"count,omitempty"`
	Extra    map[string]string `json:"extra,omitempty"`

	// outcome (filled by execution)
	OK   bool   `json:"ok"`
	Err  string `json:"err,omitempty"`
	Note string `json:"note,omitempty"`
	H    int64  `json:"h,omitempty"`
}

// NodeSpec is a node + pledge record installed directly (as InitGenesis would).
type NodeSpec struct {
	Acct      int     `json:"acct"`
	Status    uint32  `json:"status"`
	Rep       float32 `json:"rep"`
	Role      uint32  `json:"role"`
	LastAlive int64   `json:"lastAlive"`
	Total     int64   `json:"total"`
	Used      int64   `json:"used"`
	NoPledge  bool    `json:"noPledge,omitempty"`
}

type FaultEntry struct {
	DataId   string `json:"dataId"`
	OrderId  uint64 `json:"orderId"`
	ShardId  uint64 `json:"shardId"`
	CommitId string `json:"commitId"`
	Provider int    `json:"provider"`
}

// DidRef is a DID known to the simulation together with its signing key.
type DidRef struct {
	Kind    string // "key" | "sid"
	Acct    int    // account the key DID belongs to / the sid DID was first bound from
	Did     string
	Kid     string
	Priv    *secp256k1.PrivKey
	Root    string // sid root doc id
	Version string // sid current document version
	Ts      uint64
}

const (
	CidA = "bafkreib6xu27ddj4j2hnm2qmqc6tdcrwjsxhy5cnkl3jaqmjbfxjbhugsq"
	CidB = "bafkreidhwlqzjcs7mokjgoy3inmrcnkhlpaq5kyv4bk7cbyphyqzrb4gdq"
	CidC = "QmYwAPJzv5CZsnA625s3Xf2nemtYgPpHdWEz79ojWnPbdG"
	Peer = "/ip4/127.0.0.1/tcp/5153"
)

const StatusFull = nodetypes.NODE_STATUS_ONLINE | nodetypes.NODE_STATUS_SERVE_GATEWAY | nodetypes.NODE_STATUS_SERVE_STORAGE | nodetypes.NODE_STATUS_ACCEPT_ORDER

// DataIdN returns the n-th well-formed 36-character data id.
func DataIdN(n int) string { return fmt.Sprintf("11111111-1111-4111-8111-%012d", n) }

// CommitN returns the n-th well-formed 36-character commit id.
func CommitN(n int) string { return fmt.Sprintf("22222222-2222-4222-8222-%012d", n) }

func (s *Sim) acct(i int) *chain.Account {
	if i < 0 || i >= len(s.W.Accounts) {
		return s.W.Accounts[0]
	}
	return s.W.Accounts[i]
}

func (s *Sim) bech(i int) string { return s.acct(i).Bech }

func (s *Sim) didStr(i int) string {
	if i < 0 || i >= len(s.Dids) {
		return ""
	}
	return s.Dids[i].Did
}

func (s *Sim) didList(idx []int) []string {
	var out []string
	for _, i := range idx {
		out = append(out, s.didStr(i))
	}
	return out
}

// signFor produces the JWS for proposal p according to the action's signer fields.
func (s *Sim) signFor(a *Action, p chain.Marshaler) saotypes.JwsSignature {
	si := a.Signer
	if si < 0 || si >= len(s.Dids) {
		si = a.Owner
	}
	if si < 0 || si >= len(s.Dids) {
		return saotypes.JwsSignature{}
	}
	d := s.Dids[si]
	kid := d.Kid
	if a.KidOver != "" {
		kid = a.KidOver
	}
	return chain.SignProposal(d.Priv, kid, p)
}

func (s *Sim) msgProv(a *Action) string {
	if a.MsgProv < 0 {
		return s.bech(a.Creator)
	}
	return s.bech(a.MsgProv)
}

// BuildMsg turns an action into the sdk.Msg it stands for (nil for non-message actions).
func (s *Sim) BuildMsg(a *Action) sdk.Msg {
	switch a.Kind {
	case "node_create":
		return &nodetypes.MsgCreate{Creator: s.bech(a.Creator)}
	case "node_reset":
		m := &nodetypes.MsgReset{Creator: s.bech(a.Creator), Peer: Peer, Status: a.Status}
		for _, i := range a.TxAddrs {
			m.TxAddresses = append(m.TxAddresses, s.bech(i))
		}
		if a.Val >= 0 && a.Val < len(s.W.ValAddrs) {
			m.Validator = s.W.ValAddrs[a.Val].String()
		}
		return m
	case "add_vstorage":
		return &nodetypes.MsgAddVstorage{Creator: s.bech(a.Creator), Size_: a.Size}
	case "remove_vstorage":
		return &nodetypes.MsgRemoveVstorage{Creator: s.bech(a.Creator), Size_: a.Size}
	case "claim":
		return &nodetypes.MsgClaimReward{Creator: s.bech(a.Creator)}
	case "set_payaddr":
		acc := a.Target
		if acc < 0 {
			acc = a.Creator
		}
		return &didtypes.MsgUpdatePaymentAddress{Creator: s.bech(a.Creator), AccountId: chain.CosmosAccountId(s.W.Cfg.ChainID, s.bech(acc)), Did: s.didStr(a.Owner)}
	case "store":
		owner := s.didStr(a.Owner)
		if a.OwnerOver != "" {
			owner = a.OwnerOver
		}
		p := saotypes.Proposal{
			Owner: owner, Provider: s.bech(a.PropProv), GroupId: "g", Duration: a.Duration, Replica: a.Replica,
			Timeout: a.Timeout, Alias: a.Alias, DataId: a.DataId, CommitId: a.Commit, Cid: a.Cid, Size_: a.Size,
			Operation: a.Op, ReadonlyDids: s.didList(a.RO), ReadwriteDids: s.didList(a.RW),
		}
		if a.PayDid >= 0 {
			p.PaymentDid = s.didStr(a.PayDid)
		}
		sig := s.signFor(a, &p)
		switch a.Tamper {
		case "":
		case "commit":
			p.CommitId = p.CommitId + "x"
		case "dataId":
			p.DataId = DataIdN(999)
		case "duration":
			p.Duration += 1000
		case "owner":
			p.Owner = a.Extra["owner"]
		case "cid":
			if p.Cid == CidC {
				p.Cid = CidA
			} else {
				p.Cid = CidC
			}
		case "sig":
			sig.Signature = "AAAA" + sig.Signature[4:]
		case "nosig":
			sig = saotypes.JwsSignature{}
		}
		return &saotypes.MsgStore{Creator: s.bech(a.Creator), Proposal: p, JwsSignature: sig, Provider: s.msgProv(a)}
	case "ready":
		return &saotypes.MsgReady{Creator: s.bech(a.Creator), OrderId: a.Order, Provider: s.msgProv(a)}
	case "complete":
		return &saotypes.MsgComplete{Creator: s.bech(a.Creator), OrderId: a.Order, Cid: a.Cid, Size_: a.Size, Provider: s.msgProv(a)}
	case "cancel":
		return &saotypes.MsgCancel{Creator: s.bech(a.Creator), OrderId: a.Order, Provider: s.msgProv(a)}
	case "terminate":
		owner := s.didStr(a.Owner)
		if a.OwnerOver != "" {
			owner = a.OwnerOver
		}
		p := saotypes.TerminateProposal{Owner: owner, DataId: a.DataId}
		sig := s.signFor(a, &p)
		switch a.Tamper {
		case "dataId":
			p.DataId = a.Extra["dataId"]
		case "owner":
			p.Owner = a.Extra["owner"]
		case "sig":
			sig.Signature = "AAAA" + sig.Signature[4:]
		case "nosig":
			sig = saotypes.JwsSignature{}
		}
		return &saotypes.MsgTerminate{Creator: s.bech(a.Creator), Proposal: p, JwsSignature: sig, Provider: s.msgProv(a)}
	case "renew":
		owner := s.didStr(a.Owner)
		if a.OwnerOver != "" {
			owner = a.OwnerOver
		}
		p := saotypes.RenewProposal{Owner: owner, Duration: a.Duration, Timeout: a.Timeout, Data: a.Data}
		sig := s.signFor(a, &p)
		switch a.Tamper {
		case "data":
			p.Data = []string{a.Extra["dataId"]}
		case "duration":
			p.Duration += 1000
		case "owner":
			p.Owner = a.Extra["owner"]
		case "sig":
			sig.Signature = "AAAA" + sig.Signature[4:]
		case "nosig":
			sig = saotypes.JwsSignature{}
		}
		return &saotypes.MsgRenew{Creator: s.bech(a.Creator), Proposal: p, JwsSignature: sig, Provider: s.msgProv(a)}
	case "permission":
		owner := s.didStr(a.Owner)
		if a.OwnerOver != "" {
			owner = a.OwnerOver
		}
		p := saotypes.PermissionProposal{Owner: owner, DataId: a.DataId, ReadonlyDids: s.didList(a.RO), ReadwriteDids: s.didList(a.RW)}
		sig := s.signFor(a, &p)
		switch a.Tamper {
		case "dataId":
			p.DataId = a.Extra["dataId"]
		case "owner":
			p.Owner = a.Extra["owner"]
		case "rw":
			p.ReadwriteDids = append(p.ReadwriteDids, a.Extra["did"])
		case "sig":
			sig.Signature = "AAAA" + sig.Signature[4:]
		case "nosig":
			sig = saotypes.JwsSignature{}
		}
		return &saotypes.MsgUpdataPermission{Creator: s.bech(a.Creator), Proposal: p, JwsSignature: sig, Provider: s.msgProv(a)}
	case "migrate":
		return &saotypes.MsgMigrate{Creator: s.bech(a.Creator), Data: a.Data, Provider: s.msgProv(a)}
	case "report_faults", "recover_faults":
		var fs []*saotypes.Fault
		for _, f := range a.Faults {
			fs = append(fs, &saotypes.Fault{DataId: f.DataId, OrderId: f.OrderId, ShardId: f.ShardId, CommitId: f.CommitId, Provider: s.bech(f.Provider)})
		}
		if a.Kind == "report_faults" {
			return &saotypes.MsgReportFaults{Creator: s.bech(a.Creator), Provider: s.bech(a.Target), Faults: fs}
		}
		return &saotypes.MsgRecoverFaults{Creator: s.bech(a.Creator), Provider: s.bech(a.Target), Faults: fs}
	case "bank_send":
		return &banktypes.MsgSend{FromAddress: s.bech(a.Creator), ToAddress: s.bech(a.Target), Amount: sdk.NewCoins(sdk.NewInt64Coin(s.W.Cfg.Denom, a.Amount))}
	case "delegate":
		return &stakingtypes.MsgDelegate{DelegatorAddress: s.bech(a.Creator), ValidatorAddress: s.valStr(a.Target), Amount: sdk.NewInt64Coin(s.W.Cfg.Denom, a.Amount)}
	case "undelegate":
		return &stakingtypes.MsgUndelegate{DelegatorAddress: s.bech(a.Creator), ValidatorAddress: s.valStr(a.Target), Amount: sdk.NewInt64Coin(s.W.Cfg.Denom, a.Amount)}
	case "redelegate":
		return &stakingtypes.MsgBeginRedelegate{DelegatorAddress: s.bech(a.Creator), ValidatorSrcAddress: s.valStr(a.Target), ValidatorDstAddress: s.valStr(a.Target2), Amount: sdk.NewInt64Coin(s.W.Cfg.Denom, a.Amount)}
	case "create_validator":
		// a new validator operated by account a.Creator: its self-delegation is the first delegation
		// the validator ever gets (the validator has no shares when the delegation hooks run)
		pk := ed25519.GenPrivKeyFromSecret([]byte(fmt.Sprintf("generated-validator-%d", a.Creator))).PubKey()
		m, err := stakingtypes.NewMsgCreateValidator(sdk.ValAddress(s.acct(a.Creator).Addr), pk, sdk.NewInt64Coin(s.W.Cfg.Denom, a.Amount),
			stakingtypes.Description{Moniker: fmt.Sprintf("gen-%d", a.Creator)}, stakingtypes.NewCommissionRates(sdk.ZeroDec(), sdk.ZeroDec(), sdk.ZeroDec()), sdk.OneInt())
		if err != nil {
			panic(err)
		}
		return m
	case "gov_param":
		// a governance proposal that changes one module parameter (written by x/params, not by the module's keeper)
		content := paramproposal.NewParameterChangeProposal("change "+a.Extra["key"], "generated", []paramproposal.ParamChange{{Subspace: a.Extra["subspace"], Key: a.Extra["key"], Value: a.Extra["value"]}})
		m, err := govv1beta1.NewMsgSubmitProposal(content, sdk.NewCoins(sdk.NewInt64Coin(s.W.Cfg.Denom, a.Amount)), s.acct(a.Creator).Addr)
		if err != nil {
			panic(err)
		}
		return m
	case "gov_vote":
		return govv1beta1.NewMsgVote(s.acct(a.Creator).Addr, a.Order, govv1beta1.OptionYes)
	case "bind_sid":
		return s.buildBinding(a)
	case "did_bind":
		return s.buildDidBind(a)
	case "did_update":
		return s.buildDidUpdate(a)
	}
	return nil
}

func (s *Sim) valStr(i int) string {
	if i < 0 || i >= len(s.W.ValAddrs) {
		// unknown validator: a syntactically valid operator address nobody registered
		return sdk.ValAddress(s.acct(len(s.W.Accounts) - 1).Addr).String()
	}
	return s.W.ValAddrs[i].String()
}

// buildBinding creates the MsgBinding that binds account a.Creator to a (new or existing) sid DID.
// a.Owner: index of an existing sid DID, or -1 to create a new one keyed by a.Ts.
func (s *Sim) buildBinding(a *Action) sdk.Msg {
	acc := s.acct(a.Creator)
	bindAcc := acc
	if a.Target >= 0 {
		bindAcc = s.acct(a.Target)
	}
	var root, did string
	var keys []*didtypes.PubKey
	ts := a.Ts
	if a.Owner >= 0 && a.Owner < len(s.Dids) && s.Dids[a.Owner].Kind == "sid" {
		d := s.Dids[a.Owner]
		root, did = d.Root, d.Did
		keys = chain.SidKeys(d.Priv)
	} else {
		priv := secp256k1.GenPrivKeyFromSecret([]byte(fmt.Sprintf("sid-%d-%d", a.Creator, ts)))
		keys = chain.SidKeys(priv)
		root = chain.SidDocId(keys, ts)
		did = "did:sid:" + root
	}
	accDid := acctDid(fmt.Sprintf("c%d", bindAcc.Idx))
	proof := chain.CosmosBindingProof(bindAcc, bindAcc.Priv, did, "Link this account to your did: "+did+"\nTimestamp: "+fmt.Sprint(ts), ts)
	return &didtypes.MsgBinding{
		Creator:     acc.Bech,
		AccountId:   chain.CosmosAccountId(s.W.Cfg.ChainID, bindAcc.Bech),
		RootDocId:   root,
		Keys:        keys,
		AccountAuth: &didtypes.AccountAuth{AccountDid: accDid, AccountEncryptedSeed: "seed", SidEncryptedAccount: "acc"},
		Proof:       proof,
	}
}
