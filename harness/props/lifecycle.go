package props

import (
	"sort"
	"strings"

	"saoverif/chain"

	modeltypes "github.com/SaoNetwork/sao/x/model/types"
	nodetypes "github.com/SaoNetwork/sao/x/node/types"
	ordertypes "github.com/SaoNetwork/sao/x/order/types"
	sdk "github.com/cosmos/cosmos-sdk/types"
	"pgregory.net/rapid"
)

// LifeCfg parametrises the storage-lifecycle action generators.
type LifeCfg struct {
	Providers []int // accounts registered as nodes
	Owners    []int // DID indexes (key DIDs of accounts) with payment address set
	Sponsors  []int // DID indexes usable as PaymentDid
	MaxData   int   // number of distinct data ids
	MinSize   uint64
	MaxSize   uint64
	MaxDur    uint64
	MaxRep    int
	TimeoutLo int
	TimeoutHi int
	nextCommit int
	proposed   map[string][]string // data id -> new version ids proposed by generated updates (for the abandoned-base shape)
	bigDebt    bool // GenDebtCombo picks the largest shard and the longest renewal
	ZeroTimeouts bool // GenStoreNew sometimes asks for a timeout of exactly 0
	Capacity   uint64 // capacity every provider pledges during setup (0: the spec's default)
	// Exclusions for open known findings (applied by construction, counted in s.Excluded).
	NoRenewTopUp      bool // renew duration never raises the shard collateral (h4)
	NoTerminateQueued bool // no terminate while a renewal has not started
}

func DefaultLifeCfg() *LifeCfg {
	return &LifeCfg{
		Providers: []int{2, 3, 4, 5, 6},
		Owners:    []int{8, 9},
		Sponsors:  []int{10},
		MaxData:   4,
		MinSize:   1_000,
		MaxSize:   100_000_000,
		MaxDur:    12000,
		MaxRep:    3,
		TimeoutLo: 2,
		TimeoutHi: 40,
	}
}

// SetupStorage registers the providers and payment addresses through real messages.
func (s *Sim) SetupStorage(cfg *LifeCfg, capacity uint64) {
	for _, p := range cfg.Providers {
		s.mustDo(NewAction("node_create", p))
		r := NewAction("node_reset", p)
		r.Status = StatusFull
		s.mustDo(r)
		v := NewAction("add_vstorage", p)
		v.Size = capacity
		s.mustDo(v)
	}
	for _, o := range append(append([]int{}, cfg.Owners...), cfg.Sponsors...) {
		a := NewAction("set_payaddr", s.Dids[o].Acct)
		a.Owner = o
		s.mustDo(a)
	}
}

func (s *Sim) mustDo(a *Action) *chain.TxResult {
	r := s.Do(a)
	if !r.OK {
		infra("setup action %s failed: %s", a.Kind, r.ErrString())
	}
	return r
}

// NewAction returns an action with all optional indexes unset (-1).
func NewAction(kind string, creator int) *Action {
	return &Action{Kind: kind, Creator: creator, MsgProv: -1, PropProv: -1, Owner: -1, Signer: -1, PayDid: -1, Target: -1, Target2: -1, Val: -1}
}

// ---- state inspection helpers (on the last snapshot) ----

func sortedOrders(sn *chain.Snapshot) []ordertypes.Order {
	ids := chain.SortedU64(sn.Orders)
	out := make([]ordertypes.Order, 0, len(ids))
	for _, id := range ids {
		out = append(out, sn.Orders[id])
	}
	return out
}

func sortedShards(sn *chain.Snapshot) []ordertypes.Shard {
	ids := chain.SortedU64(sn.Shards)
	out := make([]ordertypes.Shard, 0, len(ids))
	for _, id := range ids {
		out = append(out, sn.Shards[id])
	}
	return out
}

func sortedMetas(sn *chain.Snapshot) []modeltypes.Metadata {
	ids := chain.SortedStr(sn.Metas)
	out := make([]modeltypes.Metadata, 0, len(ids))
	for _, id := range ids {
		out = append(out, sn.Metas[id])
	}
	return out
}

func (s *Sim) acctOf(bech string) int {
	for i, a := range s.W.Accounts {
		if a.Bech == bech {
			return i
		}
	}
	return -1
}

func (s *Sim) didIdx(did string) int {
	for i, d := range s.Dids {
		if d.Did == did {
			return i
		}
	}
	return -1
}

// orderOfShardList returns the order that lists shard id (the one named by shard.OrderId when possible).
func listingOrder(sn *chain.Snapshot, sh ordertypes.Shard) (ordertypes.Order, bool) {
	if o, ok := sn.Orders[sh.OrderId]; ok {
		return o, true
	}
	for _, o := range sortedOrders(sn) {
		for _, id := range o.Shards {
			if id == sh.Id {
				return o, true
			}
		}
	}
	return ordertypes.Order{}, false
}

// ---- generators: each draws one action from the current state, or returns nil ----

func (cfg *LifeCfg) genSize(t *rapid.T) uint64 {
	switch rapid.IntRange(0, 5).Draw(t, "sizeClass") {
	case 0:
		if cfg.MinSize < 200 {
			return rapid.Uint64Range(cfg.MinSize, 200).Draw(t, "size")
		}
		return rapid.Uint64Range(cfg.MinSize, 10_000).Draw(t, "size")
	case 1:
		return uint64(rapid.SampledFrom([]int{999_999, 1_000_000, 1_000_001, 2_500_000}).Draw(t, "size"))
	default:
		// rapid biases integer ranges towards small values: draw the magnitude explicitly
		mag := rapid.IntRange(3, 7).Draw(t, "sizeMag")
		v := uint64(rapid.IntRange(10, 99).Draw(t, "sizeMant"))
		for i := 1; i < mag; i++ {
			v *= 10
		}
		v += uint64(rapid.IntRange(0, 9).Draw(t, "sizeLow"))
		if v > cfg.MaxSize {
			v = cfg.MaxSize
		}
		if v < cfg.MinSize {
			v = cfg.MinSize
		}
		return v
	}
}

// GenKeepAlive: every provider re-announces itself (real nodes do so periodically; after
// OfflineTriggerHeight blocks without it the end-blocker marks them offline).
func (cfg *LifeCfg) GenKeepAlive(t *rapid.T, s *Sim) *Action {
	var last *Action
	for _, p := range cfg.Providers {
		a := NewAction("node_reset", p)
		a.Status = StatusFull
		if last != nil {
			s.Do(last)
		}
		last = a
	}
	return last
}

func (cfg *LifeCfg) genDur(t *rapid.T) uint64 {
	if rapid.IntRange(0, 3).Draw(t, "durClass") == 0 {
		return 3600
	}
	return rapid.Uint64Range(3600, cfg.MaxDur).Draw(t, "dur")
}

func (cfg *LifeCfg) freeDataId(sn *chain.Snapshot, t *rapid.T) (string, bool) {
	var free []string
	for i := 1; i <= cfg.MaxData; i++ {
		if _, ok := sn.Metas[DataIdN(i)]; !ok {
			free = append(free, DataIdN(i))
		}
	}
	if len(free) == 0 {
		return "", false
	}
	return rapid.SampledFrom(free).Draw(t, "dataId"), true
}

// GenStoreNew: an honest new-model order submitted by the gateway the proposal names.
func (cfg *LifeCfg) GenStoreNew(t *rapid.T, s *Sim) *Action {
	id, ok := cfg.freeDataId(s.Last, t)
	if !ok {
		return nil
	}
	gw := rapid.SampledFrom(cfg.Providers).Draw(t, "gateway")
	a := NewAction("store", gw)
	a.Owner = rapid.SampledFrom(cfg.Owners).Draw(t, "owner")
	a.PropProv = gw
	a.DataId = id
	a.Commit = id
	a.Alias = "alias-" + id[len(id)-4:]
	a.Cid = CidA
	a.Op = 1
	a.Size = cfg.genSize(t)
	a.Replica = int32(rapid.IntRange(1, cfg.MaxRep).Draw(t, "replica"))
	a.Duration = cfg.genDur(t)
	a.Timeout = int32(rapid.IntRange(cfg.TimeoutLo, cfg.TimeoutHi).Draw(t, "timeout"))
	if cfg.ZeroTimeouts && rapid.IntRange(0, 11).Draw(t, "zeroTimeout") == 0 {
		a.Timeout = 0 // on the boundary of the validation (must be refused: there is no interval to wait for)
	}
	if len(cfg.Sponsors) > 0 && rapid.IntRange(0, 4).Draw(t, "sponsored") == 0 {
		sp := rapid.SampledFrom(cfg.Sponsors).Draw(t, "sponsor")
		a.PayDid = sp
		a.Creator = s.Dids[sp].Acct // the sponsor itself submits
		a.MsgProv = gw
	}
	return a
}

func latestCommit(m modeltypes.Metadata) string {
	if len(m.Commits) == 0 {
		return ""
	}
	v := m.Commits[len(m.Commits)-1]
	if i := strings.IndexByte(v, 26); i >= 0 {
		return v[:i]
	}
	return v
}

// GenStoreUpdate: an honest update / force-push over a completed model by its owner.
func (cfg *LifeCfg) GenStoreUpdate(t *rapid.T, s *Sim) *Action {
	var cands []modeltypes.Metadata
	for _, m := range sortedMetas(s.Last) {
		if m.Status == modeltypes.MetaComplete && len(m.Commits) > 0 {
			cands = append(cands, m)
		}
	}
	if len(cands) == 0 {
		return nil
	}
	m := cands[rapid.IntRange(0, len(cands)-1).Draw(t, "model")]
	gw := rapid.SampledFrom(cfg.Providers).Draw(t, "gateway")
	a := NewAction("store", gw)
	a.Owner = s.didIdx(m.Owner)
	if a.Owner < 0 {
		return nil
	}
	a.PropProv = gw
	a.DataId = m.DataId
	cfg.nextCommit++
	a.Commit = latestCommit(m) + "|" + CommitN(cfg.nextCommit)
	cfg.notePropose(m.DataId, CommitN(cfg.nextCommit))
	a.Alias = m.Alias
	a.Cid = CidB
	a.Op = uint32(rapid.IntRange(1, 2).Draw(t, "op"))
	for _, oid := range m.Orders {
		if o, ok := s.Last.Orders[oid]; ok && o.Operation == 3 && len(m.Commits) > 1 {
			// the latest version has been renewed: a force-push now settles several orders at once
			a.Op = uint32(rapid.SampledFrom([]int{2, 2, 2, 1}).Draw(t, "opAfterRenew"))
			if a.Op == 2 {
				s.Label("force-push-after-renew-tried")
			}
			break
		}
	}
	a.Size = cfg.genSize(t)
	a.Replica = int32(rapid.IntRange(1, cfg.MaxRep).Draw(t, "replica"))
	a.Duration = cfg.genDur(t)
	a.Timeout = int32(rapid.IntRange(cfg.TimeoutLo, cfg.TimeoutHi).Draw(t, "timeout"))
	return a
}

// GenComplete: the assigned provider reports a waiting / migrating shard as stored.
func (cfg *LifeCfg) GenComplete(t *rapid.T, s *Sim) *Action {
	var cands []ordertypes.Shard
	for _, sh := range sortedShards(s.Last) {
		if sh.Status == ordertypes.ShardWaiting || sh.Status == ordertypes.ShardMigrating {
			cands = append(cands, sh)
		}
	}
	if len(cands) == 0 {
		return nil
	}
	sh := cands[rapid.IntRange(0, len(cands)-1).Draw(t, "shard")]
	o, ok := s.orderListing(sh)
	if !ok {
		return nil
	}
	// a shard may be listed by several orders (renewals share the list): the provider may name any of them
	var listing []uint64
	for _, ord := range sortedOrders(s.Last) {
		for _, id := range ord.Shards {
			if id == sh.Id {
				listing = append(listing, ord.Id)
			}
		}
	}
	if len(listing) > 1 {
		o = listing[rapid.IntRange(0, len(listing)-1).Draw(t, "viaOrder")]
	}
	sp := s.acctOf(sh.Sp)
	a := NewAction("complete", sp)
	a.Order = o
	a.Cid = sh.Cid
	a.Size = sh.Size_
	return a
}

// orderListing returns the id of an order through which Complete can reach shard sh:
// Complete looks the shard up by provider in the shard list of the order named in the message.
func (s *Sim) orderListing(sh ordertypes.Shard) (uint64, bool) {
	sn := s.Last
	if o, ok := sn.Orders[sh.OrderId]; ok {
		for _, id := range o.Shards {
			if id == sh.Id {
				return o.Id, true
			}
		}
	}
	for _, o := range sortedOrders(sn) {
		for _, id := range o.Shards {
			if id == sh.Id {
				return o.Id, true
			}
		}
	}
	return 0, false
}

// GenCompleteAll returns completes for every waiting shard of one order (a burst).
func (cfg *LifeCfg) GenCancel(t *rapid.T, s *Sim) *Action {
	var cands []ordertypes.Order
	for _, o := range sortedOrders(s.Last) {
		if o.Status != ordertypes.OrderCompleted && o.Operation != 3 {
			cands = append(cands, o)
		}
	}
	if len(cands) == 0 {
		return nil
	}
	o := cands[rapid.IntRange(0, len(cands)-1).Draw(t, "order")]
	c := s.acctOf(o.Creator)
	if c < 0 {
		return nil
	}
	a := NewAction("cancel", c)
	a.Order = o.Id
	return a
}

func (cfg *LifeCfg) GenTerminate(t *rapid.T, s *Sim) *Action {
	ms := sortedMetas(s.Last)
	if len(ms) == 0 {
		return nil
	}
	m := ms[rapid.IntRange(0, len(ms)-1).Draw(t, "model")]
	if cfg.NoTerminateQueued && hasQueuedRenewal(s.Last, m) {
		s.Excluded["terminate-with-queued-renewal"]++
		return nil
	}
	gw := rapid.SampledFrom(cfg.Providers).Draw(t, "gateway")
	a := NewAction("terminate", gw)
	a.Owner = s.didIdx(m.Owner)
	if a.Owner < 0 {
		return nil
	}
	a.DataId = m.DataId
	return a
}

func hasQueuedRenewal(sn *chain.Snapshot, m modeltypes.Metadata) bool {
	for _, sh := range sn.Shards {
		if len(sh.RenewInfos) > 0 {
			if o, ok := sn.Orders[sh.OrderId]; ok && o.DataId == m.DataId {
				return true
			}
		}
	}
	return false
}

func (cfg *LifeCfg) GenRenew(t *rapid.T, s *Sim) *Action {
	byOwner := map[string][]string{}
	for _, m := range sortedMetas(s.Last) {
		if m.Status == modeltypes.MetaComplete {
			byOwner[m.Owner] = append(byOwner[m.Owner], m.DataId)
		}
	}
	owners := chain.SortedStr(byOwner)
	if len(owners) == 0 {
		return nil
	}
	ow := owners[rapid.IntRange(0, len(owners)-1).Draw(t, "owner")]
	ids := byOwner[ow]
	n := rapid.IntRange(1, len(ids)).Draw(t, "n")
	gw := rapid.SampledFrom(cfg.Providers).Draw(t, "gateway")
	a := NewAction("renew", gw)
	a.Owner = s.didIdx(ow)
	if a.Owner < 0 {
		return nil
	}
	a.Data = append([]string{}, ids[:n]...)
	a.Duration = cfg.genDur(t)
	if rapid.Bool().Draw(t, "longer") {
		// longer than the current period: a collateral top-up is due
		a.Duration = rapid.Uint64Range(cfg.MaxDur, 3*cfg.MaxDur).Draw(t, "longDur")
	}
	a.Timeout = 10
	if cfg.NoRenewTopUp {
		// collateral is ceil(1e-7*size*duration): keep the renewal no longer than the
		// shortest current period among the shards renewed, so that no top-up is due
		min := uint64(0)
		for _, id := range a.Data {
			m := s.Last.Metas[id]
			if o, ok := s.Last.Orders[m.OrderId]; ok {
				for _, sid := range o.Shards {
					if sh, ok := s.Last.Shards[sid]; ok {
						d := sh.Pledge.Amount.Uint64() * 10_000_000 / maxU(sh.Size_, 1) // duration the pledge covers (floor)
						if min == 0 || d < min {
							min = d
						}
					}
				}
			}
		}
		if min < 3600 {
			s.Excluded["renew-with-top-up"]++
			return nil
		}
		if a.Duration > min {
			s.Excluded["renew-with-top-up"]++
			a.Duration = min
		}
	}
	return a
}

func maxU(a, b uint64) uint64 {
	if a > b {
		return a
	}
	return b
}

func (cfg *LifeCfg) GenMigrate(t *rapid.T, s *Sim) *Action {
	bySp := map[string]map[string]bool{}
	for _, sh := range sortedShards(s.Last) {
		if sh.Status == ordertypes.ShardCompleted {
			if o, ok := listingOrder(s.Last, sh); ok {
				if bySp[sh.Sp] == nil {
					bySp[sh.Sp] = map[string]bool{}
				}
				bySp[sh.Sp][o.DataId] = true
			}
		}
	}
	sps := chain.SortedStr(bySp)
	if len(sps) == 0 {
		return nil
	}
	sp := sps[rapid.IntRange(0, len(sps)-1).Draw(t, "sp")]
	ids := chain.SortedStr(bySp[sp])
	n := rapid.IntRange(1, len(ids)).Draw(t, "n")
	c := s.acctOf(sp)
	if c < 0 {
		return nil
	}
	a := NewAction("migrate", c)
	a.Data = ids[:n]
	return a
}

func (cfg *LifeCfg) GenClaim(t *rapid.T, s *Sim) *Action {
	p := rapid.SampledFrom(cfg.Providers).Draw(t, "sp")
	return NewAction("claim", p)
}

// GenAdvance aims block advance at the scheduled heights.
func (cfg *LifeCfg) GenAdvance(t *rapid.T, s *Sim) *Action {
	a := NewAction("advance", 0)
	h := s.C.Height
	next := s.Last.NextScheduled(h - 1)
	cls := rapid.IntRange(0, 7).Draw(t, "advClass")
	switch {
	case cls == 0:
		a.Blocks = 1
	case cls == 1:
		a.Blocks = int64(rapid.IntRange(2, 30).Draw(t, "k"))
	case cls == 2 && next > h:
		a.Blocks = next - h // stop in the block before... (boundary after next-1)
	case cls >= 3 && cls <= 5 && next >= h:
		a.Blocks = next - h + 1 // cross the scheduled height
		if cls == 5 {
			a.Blocks += int64(rapid.IntRange(1, 20).Draw(t, "past"))
		}
	case cls >= 6:
		// to (and across) the nearest shard / data expiry
		best := int64(0)
		for k := range s.Last.ExpShards {
			if int64(k) >= h && (best == 0 || int64(k) < best) {
				best = int64(k)
			}
		}
		for k := range s.Last.ExpData {
			if int64(k) >= h && (best == 0 || int64(k) < best) {
				best = int64(k)
			}
		}
		if best > 0 {
			a.Blocks = best - h + int64(rapid.IntRange(0, 1).Draw(t, "cross"))
		} else {
			a.Blocks = int64(rapid.IntRange(1, 700).Draw(t, "k"))
		}
	default:
		a.Blocks = int64(rapid.IntRange(1, 700).Draw(t, "k"))
	}
	if a.Blocks < 1 {
		a.Blocks = 1
	}
	if a.Blocks > 60_000 {
		// hostile timeouts / durations schedule entries near 2^30: every block is executed, so do not walk there
		a.Blocks = 60_000
	}
	return a
}

// DrainAll advances until nothing is scheduled any more (bounded).
func (s *Sim) DrainAll(maxBlocks int64) {
	start := s.C.Height
	for {
		next := s.Last.NextScheduled(s.C.Height - 1)
		if next == 0 || next-start > maxBlocks {
			return
		}
		a := NewAction("advance", 0)
		a.Blocks = next - s.C.Height + 1
		if a.Blocks < 1 {
			a.Blocks = 1
		}
		s.Do(a)
	}
}

var _ = sort.Ints

// ---- hostile value grammars (adversarial but well-typed message fields) ----

var hostileSizes = []uint64{0, 1, 999_999, 1_000_000, 1_000_001, 1 << 31, 1<<63 - 1, 1 << 63, ^uint64(0)}

// GenStoreHostile: a store whose numeric fields come from the hostile grammar.
func (cfg *LifeCfg) GenStoreHostile(t *rapid.T, s *Sim) *Action {
	a := cfg.GenStoreNew(t, s)
	if a == nil {
		a = cfg.GenStoreUpdate(t, s)
	}
	if a == nil {
		return nil
	}
	n := len(cfg.Providers)
	switch rapid.IntRange(0, 5).Draw(t, "hostileField") {
	case 0:
		a.Replica = int32(rapid.SampledFrom([]int{-1, 0, 1, 2, n - 1, n, n + 1, 1 << 30}).Draw(t, "hReplica"))
	case 1:
		a.Timeout = int32(rapid.SampledFrom([]int{-1, -1 << 31, 1, 2, 3599, 3600, 1 << 30}).Draw(t, "hTimeout"))
	case 2:
		a.Size = rapid.SampledFrom(hostileSizes).Draw(t, "hSize")
	case 3:
		a.Duration = rapid.SampledFrom([]uint64{0, 3599, 3600, 1 << 40, 1<<63 - 1, ^uint64(0)}).Draw(t, "hDuration")
	case 4:
		a.Commit = rapid.SampledFrom([]string{"|", "|" + a.DataId, a.DataId + "|", a.DataId + "|" + a.DataId + "|x", "x|y|z", a.DataId[:35]}).Draw(t, "hCommit")
	case 5:
		a.Op = uint32(rapid.SampledFrom([]int{0, 2, 3, 1 << 31}).Draw(t, "hOp"))
	}
	return a
}

// GenSeed sets the selection seed (header AppHash) of the next block.
func (cfg *LifeCfg) GenSeed(t *rapid.T, s *Sim) *Action {
	a := NewAction("seed", 0)
	a.SeedSet = true
	switch rapid.IntRange(0, 4).Draw(t, "seedClass") {
	case 0:
		a.Seed = []byte{}
	case 1:
		a.Seed = []byte{byte(rapid.IntRange(0, 255).Draw(t, "seedByte"))}
	case 2:
		a.Seed = make([]byte, 32)
	case 3:
		a.Seed = []byte{0, 0, 0, byte(rapid.IntRange(0, 255).Draw(t, "seedByte"))}
	default:
		a.Seed = rapid.SliceOfN(rapid.Byte(), 32, 32).Draw(t, "seed")
	}
	return a
}

// GenVstorage adds or removes capacity with sizes around the per-coin rounding boundary.
func (cfg *LifeCfg) GenVstorage(t *rapid.T, s *Sim) *Action {
	p := rapid.SampledFrom(cfg.Providers).Draw(t, "sp")
	kind := rapid.SampledFrom([]string{"add_vstorage", "remove_vstorage"}).Draw(t, "vkind")
	a := NewAction(kind, p)
	k := uint64(rapid.IntRange(0, 50).Draw(t, "k"))
	d := rapid.SampledFrom([]int64{-1, 0, 1, 999_999, 500_000}).Draw(t, "d")
	sz := int64(k*1_000_000) + d
	if sz < 0 {
		sz = 1
	}
	if rapid.IntRange(0, 9).Draw(t, "huge") == 0 {
		sz = rapid.SampledFrom([]int64{1 << 31, 1 << 40, 1<<63 - 1}).Draw(t, "hugeSize")
	}
	if pl, ok := s.Last.Pledges[s.bech(p)]; ok && kind == "remove_vstorage" && rapid.IntRange(0, 2).Draw(t, "aimAtFree") > 0 {
		// aim at the boundary between free capacity and capacity that backs stored shards
		free := pl.TotalStorage - pl.UsedStorage
		unit := int64(1_000_000)
		sz = rapid.SampledFrom([]int64{free, free + 1, free - 1, free / unit * unit, (free/unit + 1) * unit, (free/unit+1)*unit - 1, free + unit, pl.TotalStorage}).Draw(t, "aimed")
		if sz <= 0 {
			sz = unit
		}
	}
	a.Size = uint64(sz)
	return a
}

// GenBankDrain moves most of a provider's balance away (so that collateral cannot be afforded) or back.
func (cfg *LifeCfg) GenBankDrain(t *rapid.T, s *Sim) *Action {
	p := rapid.SampledFrom(cfg.Providers).Draw(t, "sp")
	// prefer a provider that holds a stored shard or is the target of a pending migration
	var holders []int
	for _, sh := range sortedShards(s.Last) {
		if sh.Status == ordertypes.ShardCompleted || sh.Status == ordertypes.ShardMigrating {
			if i := s.acctOf(sh.Sp); i >= 0 {
				holders = append(holders, i)
			}
		}
	}
	if len(holders) > 0 && rapid.IntRange(0, 3).Draw(t, "holder") > 0 {
		p = holders[rapid.IntRange(0, len(holders)-1).Draw(t, "holderIdx")]
	}
	a := NewAction("bank_send", p)
	a.Target = 11
	bal := s.Last.Bal[s.bech(p)]
	if rapid.Bool().Draw(t, "refill") {
		a.Creator, a.Target = 11, p
		a.Amount = rapid.Int64Range(1, 1_000_000_000).Draw(t, "amount")
		return a
	}
	if !bal.IsPositive() {
		return nil
	}
	keep := rapid.Int64Range(0, 2000).Draw(t, "keep")
	amt := bal.Int64() - keep
	if amt <= 0 {
		return nil
	}
	a.Amount = amt
	return a
}

// GenResetNode changes a provider's declared status (eligibility input).
func (cfg *LifeCfg) GenResetNode(t *rapid.T, s *Sim) *Action {
	p := rapid.SampledFrom(cfg.Providers).Draw(t, "sp")
	a := NewAction("node_reset", p)
	a.Status = rapid.SampledFrom([]uint32{StatusFull, StatusFull, StatusFull &^ nodetypes.NODE_STATUS_ACCEPT_ORDER, StatusFull &^ nodetypes.NODE_STATUS_SERVE_STORAGE, nodetypes.NODE_STATUS_ONLINE, StatusFull | nodetypes.NODE_STATUS_SERVE_INDEXING}).Draw(t, "status")
	return a
}

// GenDebtCombo aims at collateral debt: drain a provider that holds a stored shard,
// then renew that model for longer than its current period (top-up it cannot afford).
// The drain is executed here, the renewal is returned.
func (cfg *LifeCfg) GenDebtCombo(t *rapid.T, s *Sim) *Action {
	var cands []ordertypes.Shard
	for _, sh := range sortedShards(s.Last) {
		if sh.Status == ordertypes.ShardCompleted {
			if o, ok := s.Last.Orders[sh.OrderId]; ok {
				if m, ok := s.Last.Metas[o.DataId]; ok && m.Status == modeltypes.MetaComplete && m.OrderId == o.Id {
					cands = append(cands, sh)
				}
			}
		}
	}
	if len(cands) == 0 {
		return nil
	}
	sh := cands[rapid.IntRange(0, len(cands)-1).Draw(t, "debtShard")]
	if cfg.bigDebt {
		// the largest stored shard: its top-up (and so the debt) is the largest available
		for _, c := range cands {
			if c.Size_ > sh.Size_ {
				sh = c
			}
		}
	}
	p := s.acctOf(sh.Sp)
	bal := s.Last.Bal[sh.Sp]
	keep := rapid.Int64Range(0, 3).Draw(t, "keep")
	if p >= 0 && bal.IsPositive() && bal.Int64() > keep {
		d := NewAction("bank_send", p)
		d.Target = 11
		d.Amount = bal.Int64() - keep
		s.Do(d)
	}
	o := s.Last.Orders[sh.OrderId]
	m := s.Last.Metas[o.DataId]
	gw := rapid.SampledFrom(cfg.Providers).Draw(t, "gateway")
	a := NewAction("renew", gw)
	a.Owner = s.didIdx(m.Owner)
	if a.Owner < 0 {
		return nil
	}
	a.Data = []string{m.DataId}
	a.Duration = rapid.Uint64Range(sh.Duration+1000, sh.Duration+3*cfg.MaxDur).Draw(t, "longDur")
	if cfg.bigDebt {
		a.Duration = sh.Duration + 3*cfg.MaxDur
	}
	a.Timeout = 10
	return a
}

// GenPermission: the owner grants / revokes read-write and read-only access.
func (cfg *LifeCfg) GenPermission(t *rapid.T, s *Sim) *Action {
	ms := sortedMetas(s.Last)
	if len(ms) == 0 {
		return nil
	}
	m := ms[rapid.IntRange(0, len(ms)-1).Draw(t, "model")]
	gw := rapid.SampledFrom(cfg.Providers).Draw(t, "gateway")
	a := NewAction("permission", gw)
	a.Owner = s.didIdx(m.Owner)
	if a.Owner < 0 {
		return nil
	}
	a.DataId = m.DataId
	var others []int
	for _, o := range append(append([]int{}, cfg.Owners...), cfg.Sponsors...) {
		if o != a.Owner {
			others = append(others, o)
		}
	}
	if len(others) > 0 && rapid.IntRange(0, 3).Draw(t, "grant") > 0 {
		a.RW = []int{others[rapid.IntRange(0, len(others)-1).Draw(t, "rw")]}
	}
	return a
}

func (cfg *LifeCfg) notePropose(dataId, v string) {
	if cfg.proposed == nil {
		cfg.proposed = map[string][]string{}
	}
	cfg.proposed[dataId] = append(cfg.proposed[dataId], v)
}

// GenStoreStale: an update signed by an authorised principal (owner or read-write grantee)
// whose base/new commit field comes from the hostile commit grammar.
func (cfg *LifeCfg) GenStoreStale(t *rapid.T, s *Sim) *Action {
	var cands []modeltypes.Metadata
	for _, m := range sortedMetas(s.Last) {
		if len(m.Commits) > 0 {
			cands = append(cands, m)
		}
	}
	if len(cands) == 0 {
		return nil
	}
	m := cands[rapid.IntRange(0, len(cands)-1).Draw(t, "model")]
	gw := rapid.SampledFrom(cfg.Providers).Draw(t, "gateway")
	a := NewAction("store", gw)
	a.Owner = s.didIdx(m.Owner)
	if len(m.ReadwriteDids) > 0 && rapid.Bool().Draw(t, "byGrantee") {
		a.Owner = s.didIdx(m.ReadwriteDids[0])
	}
	if a.Owner < 0 {
		return nil
	}
	a.PropProv = gw
	a.DataId = m.DataId
	cfg.nextCommit++
	nc := CommitN(cfg.nextCommit)
	last := latestCommit(m)
	var older []string
	for _, v := range m.Commits[:len(m.Commits)-1] {
		if i := strings.IndexByte(v, 26); i >= 0 {
			v = v[:i]
		}
		older = append(older, v)
	}
	shapes := []string{
		last + "|" + nc,                    // honest
		"|" + nc,                           // empty base
		last[:18] + "|" + nc,               // prefix of latest
		last[18:] + "|" + nc,               // suffix of latest
		last[5:20] + "|" + nc,              // inner substring
		"-" + "|" + nc,                     // one character occurring in every id
		nc,                                 // no separator: the field is the new id only
		last,                               // re-submitting the latest id itself
		last + "|" + nc + "|" + CommitN(0), // several separators
		CommitN(9999) + "|" + nc,           // unrelated base
	}
	if len(older) > 0 {
		shapes = append(shapes, older[rapid.IntRange(0, len(older)-1).Draw(t, "older")]+"|"+nc)
	}
	// a version id that an earlier update proposed but that never became part of the history
	// (the update was cancelled, timed out or refused): "base = what the abandoned update would have committed"
	var abandoned []string
	for _, v := range cfg.proposed[m.DataId] {
		committed := v == last
		for _, c := range older {
			committed = committed || c == v
		}
		if !committed {
			abandoned = append(abandoned, v)
		}
	}
	if len(abandoned) > 0 && m.Status == modeltypes.MetaComplete {
		ab := abandoned[len(abandoned)-1] + "|" + nc
		shapes = append(shapes, ab, ab, ab)
		s.Label("abandoned-base-available")
	}
	a.Commit = shapes[rapid.IntRange(0, len(shapes)-1).Draw(t, "shape")]
	cfg.notePropose(m.DataId, nc)
	a.Alias = m.Alias
	a.Cid = CidB
	a.Op = uint32(rapid.IntRange(1, 2).Draw(t, "op"))
	a.Size = cfg.genSize(t)
	a.Replica = int32(rapid.IntRange(1, 2).Draw(t, "replica"))
	a.Duration = cfg.genDur(t)
	a.Timeout = int32(rapid.IntRange(cfg.TimeoutLo, cfg.TimeoutHi).Draw(t, "timeout"))
	return a
}

// GenMigrationAcrossRotation: a migration is started, the model is renewed while it is pending, the
// chain runs across the end of the current paid period (rotation into the renewal) and only then the
// new provider completes - through any of the orders that list the pending shard.
func (cfg *LifeCfg) GenMigrationAcrossRotation(t *rapid.T, s *Sim) *Action {
	var cands []ordertypes.Shard
	for _, sh := range sortedShards(s.Last) {
		if sh.Status == ordertypes.ShardCompleted && len(sh.RenewInfos) == 0 {
			if o, ok := s.Last.Orders[sh.OrderId]; ok {
				if m, ok := s.Last.Metas[o.DataId]; ok && m.Status == modeltypes.MetaComplete && m.OrderId == o.Id {
					cands = append(cands, sh)
				}
			}
		}
	}
	if len(cands) == 0 {
		return nil
	}
	sh := cands[rapid.IntRange(0, len(cands)-1).Draw(t, "shard")]
	o := s.Last.Orders[sh.OrderId]
	m := s.Last.Metas[o.DataId]
	mig := NewAction("migrate", s.acctOf(sh.Sp))
	mig.Data = []string{o.DataId}
	rn := NewAction("renew", rapid.SampledFrom(cfg.Providers).Draw(t, "gateway"))
	rn.Owner = s.didIdx(m.Owner)
	if rn.Owner < 0 {
		return nil
	}
	rn.Data, rn.Duration, rn.Timeout = []string{o.DataId}, cfg.genDur(t), 10
	if rapid.Bool().Draw(t, "renewFirst") {
		s.Do(rn)
		s.Do(mig)
	} else {
		s.Do(mig)
		s.Do(rn)
	}
	end := int64(sh.CreatedAt + sh.Duration)
	if end >= s.C.Height {
		adv := NewAction("advance", 0)
		adv.Blocks = end - s.C.Height + int64(rapid.IntRange(0, 2).Draw(t, "past"))
		if adv.Blocks > 0 {
			s.Do(adv)
		}
	}
	// the pending shard
	for _, x := range sortedShards(s.Last) {
		if x.Status == ordertypes.ShardMigrating && x.From == sh.Sp {
			var listing []uint64
			for _, ord := range sortedOrders(s.Last) {
				for _, id := range ord.Shards {
					if id == x.Id {
						listing = append(listing, ord.Id)
					}
				}
			}
			if len(listing) == 0 {
				return nil
			}
			c := NewAction("complete", s.acctOf(x.Sp))
			c.Order = listing[rapid.IntRange(0, len(listing)-1).Draw(t, "viaOrder")]
			c.Cid, c.Size = x.Cid, x.Size_
			return c
		}
	}
	return nil
}

// GenFault: a designated fishman (accounts 5 and 6 in the base genesis, registered as nodes in the
// default world) reports a stored shard as faulty, or the accused provider reports it recovered.
func (cfg *LifeCfg) GenFault(t *rapid.T, s *Sim) *Action {
	existing := faultsOf(s.Last)
	if len(existing) > 0 && rapid.IntRange(0, 3).Draw(t, "recover") == 0 {
		ids := chain.SortedStr(existing)
		f := existing[ids[rapid.IntRange(0, len(ids)-1).Draw(t, "fault")]]
		a := NewAction("recover_faults", s.acctOf(f.Provider))
		a.Target = a.Creator
		a.Faults = []FaultEntry{{DataId: f.DataId, OrderId: f.OrderId, ShardId: f.ShardId, CommitId: f.CommitId, Provider: a.Creator}}
		return a
	}
	var cands []ordertypes.Shard
	for _, sh := range sortedShards(s.Last) {
		if sh.Status == ordertypes.ShardCompleted {
			cands = append(cands, sh)
		}
	}
	if len(cands) == 0 {
		return nil
	}
	sh := cands[rapid.IntRange(0, len(cands)-1).Draw(t, "shard")]
	o, ok := s.Last.Orders[sh.OrderId]
	if !ok {
		return nil
	}
	a := NewAction("report_faults", rapid.SampledFrom([]int{5, 6}).Draw(t, "fishman"))
	a.Target = s.acctOf(sh.Sp)
	a.Faults = []FaultEntry{{DataId: o.DataId, OrderId: o.Id, ShardId: sh.Id, CommitId: "reported-commit", Provider: a.Target}}
	return a
}

// GenForceAfterRenew steers towards "the latest version has been renewed, then it is force-pushed":
// it returns whichever step is missing for the most advanced model (second version, renewal of the
// latest version, force-push). Completions come from the ordinary menu.
func (cfg *LifeCfg) GenForceAfterRenew(t *rapid.T, s *Sim) *Action {
	var two, one []modeltypes.Metadata
	for _, m := range sortedMetas(s.Last) {
		if m.Status != modeltypes.MetaComplete {
			continue
		}
		if len(m.Commits) >= 2 {
			two = append(two, m)
		} else if len(m.Commits) == 1 {
			one = append(one, m)
		}
	}
	build := func(m modeltypes.Metadata, op uint32) *Action {
		gw := rapid.SampledFrom(cfg.Providers).Draw(t, "gateway")
		a := NewAction("store", gw)
		a.Owner = s.didIdx(m.Owner)
		if a.Owner < 0 {
			return nil
		}
		a.PropProv, a.DataId = gw, m.DataId
		cfg.nextCommit++
		a.Commit = latestCommit(m) + "|" + CommitN(cfg.nextCommit)
		a.Alias, a.Cid, a.Op = m.Alias, CidB, op
		a.Size = cfg.genSize(t)
		a.Replica = int32(rapid.IntRange(1, 2).Draw(t, "replica"))
		a.Duration = cfg.genDur(t)
		a.Timeout = int32(rapid.IntRange(cfg.TimeoutLo, cfg.TimeoutHi).Draw(t, "timeout"))
		return a
	}
	if len(two) == 0 {
		if len(one) == 0 {
			return nil
		}
		return build(one[rapid.IntRange(0, len(one)-1).Draw(t, "model")], 1)
	}
	m := two[rapid.IntRange(0, len(two)-1).Draw(t, "model")]
	renewed := false
	for _, oid := range m.Orders {
		if o, ok := s.Last.Orders[oid]; ok && o.Operation == 3 {
			renewed = true
		}
	}
	if !renewed || rapid.IntRange(0, 3).Draw(t, "renewAgain") == 0 {
		gw := rapid.SampledFrom(cfg.Providers).Draw(t, "gateway")
		a := NewAction("renew", gw)
		a.Owner = s.didIdx(m.Owner)
		if a.Owner < 0 {
			return nil
		}
		a.Data = []string{m.DataId}
		a.Duration = cfg.genDur(t)
		a.Timeout = 10
		return a
	}
	s.Label("force-push-after-renew-tried")
	return build(m, 2)
}

// GenSettleAfterMigration steers towards "a shard handed over by migration is settled early":
// start a migration, let the new provider complete it, then terminate or force-push the model
// while the migrated shard is still being paid.
func (cfg *LifeCfg) GenSettleAfterMigration(t *rapid.T, s *Sim) *Action {
	for _, sh := range sortedShards(s.Last) {
		if sh.From == "" {
			continue
		}
		o, ok := s.orderListing(sh)
		if !ok {
			continue
		}
		ord := s.Last.Orders[o]
		switch sh.Status {
		case ordertypes.ShardMigrating:
			if rapid.IntRange(0, 2).Draw(t, "wait") == 0 {
				return nil // let some blocks pass first
			}
			c := NewAction("complete", s.acctOf(sh.Sp))
			c.Order, c.Cid, c.Size = o, sh.Cid, sh.Size_
			return c
		case ordertypes.ShardCompleted:
			m, ok := s.Last.Metas[ord.DataId]
			if !ok || m.Status != modeltypes.MetaComplete {
				continue
			}
			gw := rapid.SampledFrom(cfg.Providers).Draw(t, "gateway")
			a := NewAction("terminate", gw)
			a.Owner = s.didIdx(m.Owner)
			if a.Owner < 0 {
				continue
			}
			a.DataId = m.DataId
			s.Label("settle-after-migration-tried")
			return a
		}
	}
	return cfg.GenMigrate(t, s)
}

// GenPoorTakeover steers towards "a provider that cannot afford the collateral takes over a renewed
// shard": a stored shard with a queued renewal is migrated, the new provider's balance is reduced
// to a few coins (or to just below / at the collateral) and it completes the hand-over. When no
// shard has a queued renewal yet, a renewal is returned instead. Intermediate steps are applied here.
func (cfg *LifeCfg) GenPoorTakeover(t *rapid.T, s *Sim) *Action {
	var renewed, plain []ordertypes.Shard
	for _, sh := range sortedShards(s.Last) {
		if sh.Status != ordertypes.ShardCompleted {
			continue
		}
		o, ok := listingOrder(s.Last, sh)
		if !ok {
			continue
		}
		if m, ok := s.Last.Metas[o.DataId]; !ok || m.Status != modeltypes.MetaComplete {
			continue
		}
		if len(sh.RenewInfos) > 0 {
			renewed = append(renewed, sh)
		} else {
			plain = append(plain, sh)
		}
	}
	if len(renewed) == 0 {
		if len(plain) == 0 {
			return nil
		}
		sh := plain[rapid.IntRange(0, len(plain)-1).Draw(t, "shard")]
		o, _ := listingOrder(s.Last, sh)
		m := s.Last.Metas[o.DataId]
		a := NewAction("renew", rapid.SampledFrom(cfg.Providers).Draw(t, "gateway"))
		a.Owner = s.didIdx(m.Owner)
		if a.Owner < 0 {
			return nil
		}
		a.Data = []string{m.DataId}
		a.Duration = cfg.genDur(t)
		if rapid.Bool().Draw(t, "longer") {
			a.Duration = rapid.Uint64Range(sh.Duration+1, sh.Duration+2*cfg.MaxDur).Draw(t, "longDur")
		}
		a.Timeout = 10
		return a
	}
	sh := renewed[rapid.IntRange(0, len(renewed)-1).Draw(t, "shard")]
	o, _ := listingOrder(s.Last, sh)
	holder := s.acctOf(sh.Sp)
	if holder < 0 {
		return nil
	}
	mg := NewAction("migrate", holder)
	mg.Data = []string{o.DataId}
	if !s.Do(mg).OK {
		return nil
	}
	for _, n := range sortedShards(s.Last) {
		if n.Status != ordertypes.ShardMigrating || n.From != sh.Sp || n.Cid != sh.Cid {
			continue
		}
		target := s.acctOf(n.Sp)
		via, ok := s.orderListing(n)
		if target < 0 || !ok {
			continue
		}
		// the collateral that will be asked for: at least the highest queued renewal collateral
		want := int64(1)
		for _, ri := range sh.RenewInfos {
			if ri.Pledge.Amount.IsInt64() && ri.Pledge.Amount.Int64() > want {
				want = ri.Pledge.Amount.Int64()
			}
		}
		keep := rapid.SampledFrom([]int64{0, 1, 3, want / 2, want - 1, want, want + 1}).Draw(t, "keep")
		if keep < 0 {
			keep = 0
		}
		if bal := s.Last.Bal[n.Sp]; bal.IsInt64() && bal.Int64() > keep {
			d := NewAction("bank_send", target)
			d.Target, d.Amount = 11, bal.Int64()-keep
			s.Do(d)
		}
		s.Label("poor-takeover-tried")
		c := NewAction("complete", target)
		c.Order, c.Cid, c.Size = via, n.Cid, n.Size_
		return c
	}
	return nil
}

// GenClaimBurst: a provider whose storage income is below one coin per block claims several times
// a few blocks apart (claims that find less than one whole coin pay nothing and must not change
// what later settlements pay). The first claims are applied here, the last one is returned.
func (cfg *LifeCfg) GenClaimBurst(t *rapid.T, s *Sim) *Action {
	var slow []int
	for _, p := range cfg.Providers {
		w, ok := s.Last.Workers[s.bech(p)]
		if ok && !w.IncomePerSecond.Amount.IsNil() && w.IncomePerSecond.Amount.IsPositive() && w.IncomePerSecond.Amount.LT(sdk.OneDec()) {
			slow = append(slow, p)
		}
	}
	p := rapid.SampledFrom(cfg.Providers).Draw(t, "sp")
	if len(slow) > 0 {
		p = slow[rapid.IntRange(0, len(slow)-1).Draw(t, "slowEarner")]
		s.Label("claim-burst-sub-coin-income")
	}
	n := rapid.IntRange(2, 14).Draw(t, "claims")
	gap := int64(rapid.SampledFrom([]int{1, 1, 2, 3, 10, 40}).Draw(t, "gap"))
	for i := 0; i < n; i++ {
		s.Do(NewAction("claim", p))
		adv := NewAction("advance", 0)
		adv.Blocks = gap
		s.Do(adv)
	}
	return NewAction("claim", p)
}

// GenClaimUnderDebt: a provider with recorded collateral debt claims (twice in a row): what it has
// earned goes into the debt first. When nobody is in debt, a debt is created (GenDebtCombo).
func (cfg *LifeCfg) GenClaimUnderDebt(t *rapid.T, s *Sim) *Action {
	var debtors []int
	for _, sp := range chain.SortedStr(s.Last.Debts) {
		if d := s.Last.Debts[sp]; !d.Debt.Amount.IsNil() && d.Debt.Amount.IsPositive() {
			if i := s.acctOf(sp); i >= 0 {
				debtors = append(debtors, i)
			}
		}
	}
	if len(debtors) == 0 {
		// everybody collects what has accrued so far, so that the claim that follows the debt finds
		// only a few blocks' worth of rewards (less than the debt, for most parameter sets)
		for _, p := range cfg.Providers {
			s.Do(NewAction("claim", p))
		}
		cfg.bigDebt = rapid.Bool().Draw(t, "bigDebt")
		defer func() { cfg.bigDebt = false }()
		return cfg.GenDebtCombo(t, s)
	}
	p := debtors[rapid.IntRange(0, len(debtors)-1).Draw(t, "debtor")]
	s.Label("claim-under-debt")
	adv := NewAction("advance", 0)
	adv.Blocks = int64(rapid.SampledFrom([]int{1, 1, 2, 5, 30}).Draw(t, "blocks"))
	s.Do(adv)
	// classify: is what the claim will find less than a coin, within the debt, or more than the debt
	sp := s.bech(p)
	found := claimable(s.Last, sp)
	debt := sdk.NewDecFromInt(intOr0(s.Last.Debts[sp].Debt.Amount)) // the debt may have been settled during the advance
	switch {
	case found.LT(sdk.OneDec()):
		s.Label("claim-under-debt:block-reward-below-one-coin")
	case found.LT(debt):
		s.Label("claim-under-debt:block-reward-within-debt")
	default:
		s.Label("claim-under-debt:block-reward-exceeds-debt")
	}
	s.Do(NewAction("claim", p))
	return NewAction("claim", p)
}

// GenSecondMigration: while a hand-over of one replica is still pending, another holder of the same
// data starts a migration too (the pending receiver already holds a shard of the order).
func (cfg *LifeCfg) GenSecondMigration(t *rapid.T, s *Sim) *Action {
	for _, m := range sortedShards(s.Last) {
		if m.Status != ordertypes.ShardMigrating {
			continue
		}
		oid, ok := s.orderListing(m)
		if !ok {
			continue
		}
		o := s.Last.Orders[oid]
		for _, sid := range o.Shards {
			x, ok := s.Last.Shards[sid]
			if !ok || x.Status != ordertypes.ShardCompleted || x.Sp == m.From || x.Sp == m.Sp {
				continue
			}
			c := s.acctOf(x.Sp)
			if c < 0 {
				continue
			}
			a := NewAction("migrate", c)
			a.Data = []string{o.DataId}
			s.Label("second-migration-while-first-pending")
			return a
		}
	}
	return cfg.GenMigrate(t, s)
}

// GenFillThenZero steers towards "a provider with exactly no free capacity is needed for a request of
// size 0": fill every provider exactly (one shard of the size of its free capacity on each), then ask
// for a shard of size 0 (the chain stores it as one byte).
func (cfg *LifeCfg) GenFillThenZero(t *rapid.T, s *Sim) *Action {
	minFree, full := int64(-1), 0
	for _, p := range cfg.Providers {
		pl, ok := s.Last.Pledges[s.bech(p)]
		if !ok {
			continue
		}
		free := pl.TotalStorage - pl.UsedStorage
		if free == 0 {
			full++
			continue
		}
		if minFree < 0 || free < minFree {
			minFree = free
		}
	}
	a := cfg.GenStoreNew(t, s)
	if a == nil {
		return nil
	}
	if full > 0 && rapid.Bool().Draw(t, "askForZero") {
		a.Size = 0
		a.Replica = int32(rapid.IntRange(1, len(cfg.Providers)).Draw(t, "replica"))
		s.Label("zero-size-request-while-a-provider-is-full")
		return a
	}
	if minFree <= 0 || minFree > 50_000_000 {
		return a
	}
	a.Size = uint64(minFree)
	a.Replica = int32(len(cfg.Providers))
	return a
}
