package props

import (
	"encoding/json"
	"fmt"
	"os"
	"path/filepath"
	"sort"
	"time"

	"saoverif/chain"
	"saoverif/replica"

	sdk "github.com/cosmos/cosmos-sdk/types"
)

// Cluster drives replica processes with one consensus stream, next to an L2 shadow
// simulation (the shadow keeps generators state-aware and doubles as the driver-conformance check).
type Cluster struct {
	S        *Sim // shadow (L2)
	Signer   *chain.TxSigner
	Reps     []*replica.Client
	Names    []string
	Dirs     []string
	Seq      map[int]uint64
	Height   int64
	Time     time.Time
	LastHash []byte
	Genesis  map[string]json.RawMessage
	scratch  string
	InBlock  bool
	Mismatch int // L1/L2 outcome mismatches (conformance)
}

const l1Gas = 60_000_000

func scratchDir(tag string) string {
	d, err := os.MkdirTemp(chain.ScratchRoot(), tag)
	if err != nil {
		infra("scratch dir: %v", err)
	}
	return d
}

// NewCluster starts n replicas on fresh databases, initialises them from the base genesis
// and executes block 1 on each (as the base world of the shadow did).
func NewCluster(s *Sim, names []string) *Cluster {
	c := &Cluster{S: s, Signer: chain.NewTxSigner(s.W.Cfg.ChainID), Seq: map[int]uint64{}, Names: names}
	c.scratch = scratchDir("cluster")
	c.Genesis = s.W.GenState
	c.Time = s.W.Cfg.GenesisTime
	for _, nm := range names {
		dir := filepath.Join(c.scratch, nm)
		os.MkdirAll(dir, 0o755)
		cl, err := replica.Start(dir)
		if err != nil {
			infra("start replica: %v", err)
		}
		c.Reps = append(c.Reps, cl)
		c.Dirs = append(c.Dirs, dir)
		rs := c.call(cl, &replica.Req{Op: "init", Genesis: c.Genesis, ChainID: s.W.Cfg.ChainID, GenTime: c.Time.UnixNano(), InitialHeight: 1})
		if rs.Err != "" || rs.Panic != "" {
			infra("replica init: %s %s", rs.Err, rs.Panic)
		}
	}
	c.Height = 0
	// block 1, empty, same header time as the base world's first block
	c.Begin(nil)
	c.End(nil)
	return c
}

func (c *Cluster) call(cl *replica.Client, rq *replica.Req) *replica.Resp {
	rs, err := cl.Call(rq)
	if err != nil {
		infra("replica call %s: %v", rq.Op, err)
	}
	return rs
}

func (c *Cluster) Close() {
	for _, r := range c.Reps {
		r.Kill()
	}
	os.RemoveAll(c.scratch)
}

func (c *Cluster) proposer() []byte {
	if len(c.S.W.ConsAddr) > 0 {
		return c.S.W.ConsAddr[0]
	}
	return nil
}

// Begin opens the next block on every live replica (skip[i] = replica i does not take part).
func (c *Cluster) Begin(skip map[int]bool) {
	c.Height++
	c.Time = c.Time.Add(5 * time.Second)
	for i, r := range c.Reps {
		if skip[i] {
			continue
		}
		rs := c.call(r, &replica.Req{Op: "begin", Height: c.Height, Time: c.Time.UnixNano(), Proposer: c.proposer(), AppHash: c.LastHash})
		if rs.Panic != "" {
			c.S.FailT("begin-block-panic", "", map[string]string{"replica": c.Names[i]}, "replica %s BeginBlock(%d) panicked: %s", c.Names[i], c.Height, rs.Panic)
		}
	}
	c.InBlock = true
}

// SignAction builds the signed transaction of a message action.
func (c *Cluster) SignAction(a *Action) []byte {
	msg := c.S.BuildMsg(a)
	if msg == nil {
		infra("not a message action: %s", a.Kind)
	}
	acc := c.S.acct(a.Creator)
	tx, err := c.Signer.Sign(acc.Priv, uint64(acc.Idx), c.Seq[acc.Idx], l1Gas, msg)
	if err != nil {
		infra("sign: %v", err)
	}
	return tx
}

// Deliver sends tx to every participating replica and returns the responses.
func (c *Cluster) Deliver(tx []byte, creator int, skip map[int]bool) []*chain.TxOut {
	outs := make([]*chain.TxOut, len(c.Reps))
	for i, r := range c.Reps {
		if skip[i] {
			continue
		}
		rs := c.call(r, &replica.Req{Op: "deliver", Tx: tx})
		if rs.Panic != "" {
			c.S.FailT("deliver-panic", "", map[string]string{"replica": c.Names[i]}, "replica %s DeliverTx panicked: %s", c.Names[i], rs.Panic)
		}
		outs[i] = rs.Tx
	}
	c.Seq[creator]++
	return outs
}

// End closes the block on every participating replica and commits; returns app hashes and end-block events.
func (c *Cluster) End(skip map[int]bool) (hashes [][]byte, events []string) {
	hashes = make([][]byte, len(c.Reps))
	events = make([]string, len(c.Reps))
	for i, r := range c.Reps {
		if skip[i] {
			continue
		}
		rs := c.call(r, &replica.Req{Op: "end", Height: c.Height})
		if rs.Panic != "" {
			c.S.FailT("end-block-panic", "", map[string]string{"replica": c.Names[i]}, "replica %s EndBlock(%d) panicked: %s", c.Names[i], c.Height, rs.Panic)
		}
		events[i] = fmt.Sprintf("%s|vals=%d", rs.Events, rs.Vals)
		cm := c.call(r, &replica.Req{Op: "commit"})
		hashes[i] = cm.Hash
	}
	for i := range c.Reps {
		if !skip[i] {
			c.LastHash = hashes[i]
			break
		}
	}
	c.InBlock = false
	return
}

// EmptyBlocks runs n empty blocks on every replica (each replica loops inside its own process, the
// replicas run concurrently). It returns, per replica, the application hash and the digest of the
// EndBlock response of every block.
func (c *Cluster) EmptyBlocks(n int64) (hashes [][][]byte, evs [][][]byte) {
	type out struct {
		rs  *replica.Resp
		err error
	}
	res := make([]out, len(c.Reps))
	done := make(chan int, len(c.Reps))
	for i, r := range c.Reps {
		go func(i int, r *replica.Client) {
			rs, err := r.Call(&replica.Req{Op: "empty_blocks", Height: c.Height, Count: n, Time: c.Time.UnixNano(), Proposer: c.proposer()})
			res[i] = out{rs, err}
			done <- i
		}(i, r)
	}
	for range c.Reps {
		<-done
	}
	for i, o := range res {
		if o.err != nil {
			infra("replica call empty_blocks: %v", o.err)
		}
		if o.rs.Panic != "" {
			c.S.FailT("block-panic", "", map[string]string{"replica": c.Names[i]}, "replica %s panicked in %s", c.Names[i], o.rs.Panic)
		}
		hashes = append(hashes, o.rs.Hashes)
		evs = append(evs, o.rs.EvDigests)
	}
	c.Height += n
	c.Time = c.Time.Add(time.Duration(n) * 5 * time.Second)
	if len(hashes) > 0 && int64(len(hashes[0])) == n {
		c.LastHash = hashes[0][n-1]
	}
	return
}

// Restart kills replica i (SIGKILL) and starts a new process on the same database.
func (c *Cluster) Restart(i int) {
	c.Reps[i].Kill()
	cl, err := replica.Start(c.Dirs[i])
	if err != nil {
		infra("restart replica: %v", err)
	}
	c.Reps[i] = cl
	c.call(cl, &replica.Req{Op: "chainid", ChainID: c.S.W.Cfg.ChainID})
	info := c.call(cl, &replica.Req{Op: "info"})
	if info.Height != c.Height {
		infra("restarted replica is at height %d, expected %d", info.Height, c.Height)
	}
}

// ShadowSync makes the shadow's next block use the same selection seed (header AppHash) as the replicas.
func (c *Cluster) ShadowSync() {
	c.S.C.NextSeed, c.S.C.NextSeedSet = c.LastHash, true
}

func equalOut(a, b *chain.TxOut) string {
	if a == nil || b == nil {
		return ""
	}
	switch {
	case a.Code != b.Code || a.Codespace != b.Codespace:
		return fmt.Sprintf("code %s/%d vs %s/%d (log %q vs %q)", a.Codespace, a.Code, b.Codespace, b.Code, short(a.Log), short(b.Log))
	case string(a.Data) != string(b.Data):
		return "data differs"
	case a.GasWanted != b.GasWanted || a.GasUsed != b.GasUsed:
		return fmt.Sprintf("gas %d/%d vs %d/%d", a.GasWanted, a.GasUsed, b.GasWanted, b.GasUsed)
	case a.Events != b.Events:
		return fmt.Sprintf("events differ: %q vs %q", short(a.Events), short(b.Events))
	}
	return ""
}

func sortedInts(m map[int]bool) []int {
	var out []int
	for k := range m {
		out = append(out, k)
	}
	sort.Ints(out)
	return out
}

var _ = sdk.AccAddress{}
