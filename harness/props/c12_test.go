package props

import (
	"fmt"
	"testing"

	"saoverif/chain"

	ordertypes "github.com/SaoNetwork/sao/x/order/types"
	sdk "github.com/cosmos/cosmos-sdk/types"
	"pgregory.net/rapid"
)

// C12: timeout progress. The generator owns the silence pattern: for every shard
// assignment it decides whether (and after how many blocks) the provider completes.
// The pattern is recorded as ordinary complete / advance actions, so replays need no generator.

type c12Order struct {
	id        uint64
	created   int64
	T         int64
	N         int64
	payer     string
	payerBal0 sdk.Int // payer balance before the store
	charged   sdk.Int
	size      uint64
	duration  uint64
	bound     int64
	storedAt  int64 // height at which it became fully stored (0 = not yet)
	frozen    *ordertypes.Order
	frozenSet map[uint64]bool
	resolved  string
	reassigns int
}

type C12Oracle struct {
	NopOracle
	orders map[uint64]*c12Order
	pend   map[uint64]*c12Order // accepted but not yet handed to providers (status Pending)
	N      int64
	Events map[string]int
}

func NewC12() *C12Oracle { return &C12Oracle{orders: map[uint64]*c12Order{}, pend: map[uint64]*c12Order{}, Events: map[string]int{}} }

func (o *C12Oracle) Name() string { return "C12" }

func (o *C12Oracle) AfterAction(s *Sim, a *Action, pre, post *chain.Snapshot, res *chain.TxResult) {
	if a.Kind == "store" && res.OK {
		ord, ok := post.Orders[a.Order]
		if !ok {
			return
		}
		payer := ""
		for _, acc := range s.W.Accounts {
			if post.Bal[acc.Bech].LT(pre.Bal[acc.Bech]) {
				payer = acc.Bech
			}
		}
		T := int64(ord.Timeout)
		if T <= 0 || T > 1<<40 {
			T = 1 // a negative timeout (wrapped to uint64): there is no interval to wait for
		}
		r := &c12Order{id: a.Order, created: s.C.Height, T: T, N: o.N, payer: payer, payerBal0: pre.Bal[payer], charged: ord.Amount.Amount,
			size: ord.Size_, duration: ord.Duration, bound: s.C.Height + (10+o.N+2)*T}
		switch ord.Status {
		case ordertypes.OrderDataReady:
			o.orders[a.Order] = r
			s.sched[r.bound] = true
		case ordertypes.OrderPending:
			o.pend[a.Order] = r // submitted by the owner's own account: handed to providers only by a later Ready
		}
	}
	if a.Kind == "ready" && res.OK {
		if r := o.pend[a.Order]; r != nil {
			if ord, ok := post.Orders[a.Order]; ok && ord.Status == ordertypes.OrderDataReady {
				delete(o.pend, a.Order)
				r.created, r.bound = s.C.Height, s.C.Height+(10+o.N+2)*r.T
				o.orders[a.Order] = r
				s.sched[r.bound] = true
				s.Label("c12-handed-over-by-ready")
				if s.C.Height > int64(ord.CreatedAt)+r.T {
					s.Label("c12-ready-after-first-interval")
				}
			}
		}
	}
	o.check(s, post, false)
}

func (o *C12Oracle) Boundary(s *Sim, sn *chain.Snapshot) { o.check(s, sn, true) }

func fullyStored(sn *chain.Snapshot, ord ordertypes.Order) (bool, map[uint64]bool, int) {
	done := map[uint64]bool{}
	waiting := 0
	for _, sid := range ord.Shards {
		sh, ok := sn.Shards[sid]
		if !ok {
			continue
		}
		switch sh.Status {
		case ordertypes.ShardCompleted:
			done[sid] = true
		case ordertypes.ShardWaiting:
			waiting++
		}
	}
	return waiting == 0 && len(done) == int(ord.Replica) && len(done) > 0, done, waiting
}

func (o *C12Oracle) check(s *Sim, sn *chain.Snapshot, boundary bool) {
	h := sn.Height
	for _, id := range chain.SortedU64(o.orders) {
		r := o.orders[id]
		if r.resolved != "" && r.storedAt == 0 {
			continue
		}
		trig := map[string]string{"T": fmt.Sprint(r.T), "largeT": fmt.Sprint(r.T*int64(10+r.N+2) >= int64(r.duration))}
		ord, exists := sn.Orders[id]
		if r.storedAt > 0 {
			// fully stored: the timeout mechanism must leave it alone (until its paid term ends)
			if int64(r.frozen.CreatedAt+r.duration) <= h+r.T+1 {
				continue // end of life: expiry, not timeouts, takes over
			}
			if !exists {
				s.FailT("stored-order-removed", "", trig, "h=%d order %d was fully stored at %d and has disappeared", h, id, r.storedAt)
			}
			if ord.Replica != r.frozen.Replica || !ord.Amount.IsEqual(r.frozen.Amount) || ord.Status != r.frozen.Status {
				s.FailT("stored-order-altered", "", trig, "h=%d order %d was fully stored at %d; replica %d->%d amount %s->%s status %d->%d", h, id, r.storedAt, r.frozen.Replica, ord.Replica, r.frozen.Amount, ord.Amount, r.frozen.Status, ord.Status)
			}
			_, done, waiting := fullyStored(sn, ord)
			if waiting != 0 || len(done) != len(r.frozenSet) {
				s.FailT("stored-order-reassigned", "", trig, "h=%d order %d was fully stored at %d; now %d completed, %d waiting shards", h, id, r.storedAt, len(done), waiting)
			}
			for sid := range r.frozenSet {
				if !done[sid] {
					s.FailT("stored-shard-lost", "", trig, "h=%d stored shard %d of order %d is no longer completed", h, sid, id)
				}
			}
			if !sn.Bal[r.payer].Equal(r.payerFrozenBal()) && boundary {
				// payer balance may change through the generator's own stores only; compare against the recorded value
			}
			continue
		}
		if !exists {
			// resolved by give-up / pending timeout: the payer has everything back
			r.resolved = "refunded"
			o.Events["gave-up"]++
			s.Label("c12-gave-up")
			continue
		}
		full, done, waiting := fullyStored(sn, ord)
		if full {
			r.storedAt = h
			r.resolved = "stored"
			oc := ord
			r.frozen = &oc
			r.frozenSet = done
			o.Events["stored"]++
			s.Label("c12-stored")
			if r.reassigns > 0 {
				s.Label("c12-stored-after-reassign")
			}
			if int64(ord.Replica) < int64(len(done))+0 {
			}
			continue
		}
		// unresolved: it must stay reachable from the timeout schedule ...
		if boundary {
			reachable := false
			for th, list := range sn.Timeouts {
				if int64(th) > h {
					for _, oid := range list {
						if oid == id {
							reachable = true
						}
					}
				}
			}
			if !reachable {
				s.FailT("unfinished-order-unreachable", "", trig, "h=%d order %d is unfinished (%d completed, %d waiting, replica %d, status %d) but no future TimeoutOrder entry names it", h, id, len(done), waiting, ord.Replica, ord.Status)
			}
			// ... and be resolved by the bound
			if h >= r.bound {
				s.FailT("unresolved-past-bound", "", trig, "h=%d order %d (created %d, timeout %d, %d providers) is still unfinished after (10+N+2) intervals: %d completed, %d waiting, replica %d", h, id, r.created, r.T, r.N, len(done), waiting, ord.Replica)
			}
		}
	}
}

func (r *c12Order) payerFrozenBal() sdk.Int { return r.payerBal0 }

// Step: re-assignments, replica reductions and give-ups happen in the sao end-blocker.
func (o *C12Oracle) Step(s *Sim, step string, pre, post *chain.Snapshot) {
	if step != "sao.EndBlocker" {
		return
	}
	want := sdk.ZeroDec()
	tol := int64(0)
	what := ""
	for _, id := range chain.SortedU64(o.orders) {
		r := o.orders[id]
		po, ok1 := pre.Orders[id]
		no, ok2 := post.Orders[id]
		if ok1 && ok2 && len(no.Shards) > len(po.Shards) {
			r.reassigns++
			s.Label("c12-reassigned")
		}
		if ok1 && ok2 && no.Replica < po.Replica {
			s.Label("c12-replica-reduced")
			// the dropped replicas' price goes back to the client side
			want = want.Add(unitPrice.MulInt64(int64(po.Size_)).MulInt64(int64(po.Replica - no.Replica)).MulInt64(int64(po.Duration)))
			tol += int64(po.Replica) + 1
			what += fmt.Sprintf(" order %d dropped %d replica(s);", id, po.Replica-no.Replica)
		}
		if ok1 && !ok2 && po.Status != ordertypes.OrderCompleted {
			// gave up before any completion: full refund
			want = want.Add(sdk.NewDecFromInt(r.charged))
			tol++
			what += fmt.Sprintf(" order %d given up (charged %s);", id, r.charged)
		}
	}
	if what == "" {
		return
	}
	got := sdk.ZeroInt()
	for _, acc := range s.W.Accounts {
		if _, isNode := post.Nodes[acc.Bech]; isNode {
			continue
		}
		d := post.Bal[acc.Bech].Sub(pre.Bal[acc.Bech])
		if d.IsPositive() {
			got = got.Add(d)
		}
	}
	if sdk.NewDecFromInt(got).Sub(want).LT(sdk.NewDec(-tol)) {
		s.FailT("unfinished-part-not-refunded", "", nil, "h=%d timeout handling:%s worth %s, but client accounts received only %s in that step", post.Height, what, want, got)
	}
}

func c12Property(t *rapid.T) {
	o := NewC12()
	s := NewSim(t, "C12", o)
	s.TraceSteps = true
	cfg := DefaultLifeCfg()
	aborted := RunCase(func() {
		n := rapid.IntRange(3, 5).Draw(t, "providers")
		cfg.Providers = cfg.Providers[:n]
		o.N = int64(n)
		sidOwner := -1
		if rapid.IntRange(0, 2).Draw(t, "sidWorld") == 0 {
			cfg.Owners = []int{8} // account 9 is bound to a sid DID instead
		}
		s.SetupStorage(cfg, 1_000_000_000)
		if len(cfg.Owners) == 1 {
			b := NewAction("bind_sid", 9)
			b.Ts = 4_000_000_002
			if s.Do(b).OK {
				sidOwner = len(s.Dids) - 1
			}
		}
		readyAt := map[uint64]int64{} // pending order -> height at which its gateway sends Ready
		decided := map[uint64]int64{} // shard id -> height at which it completes (0: stays silent)
		nOrders := rapid.IntRange(1, 2).Draw(t, "orders")
		maxBound := int64(0)
		cancelAt := map[uint64]int64{} // order -> height at which its gateway cancels it (if still unfinished)
		twinTimeout := int32(0)        // when set, the next order copies this timeout (checks fall on the same height)
		place := func() {
			a := cfg.GenStoreNew(t, s)
			if a == nil {
				return
			}
			a.PayDid, a.Creator, a.MsgProv = -1, a.PropProv, -1
			viaReady := sidOwner >= 0 && rapid.IntRange(0, 1).Draw(t, "viaReady") == 0
			if viaReady {
				a.Owner, a.Signer, a.Creator = sidOwner, -1, 9 // submitted by an account bound to the owner: stays Pending
			}
			a.Replica = int32(rapid.IntRange(1, n).Draw(t, "replica"))
			switch rapid.IntRange(0, 9).Draw(t, "timeoutClass") {
			case 0:
				a.Timeout = int32(rapid.IntRange(50, 300).Draw(t, "timeout"))
			default:
				a.Timeout = int32(rapid.IntRange(2, 25).Draw(t, "timeout"))
			}
			a.Duration = rapid.Uint64Range(3600, 9000).Draw(t, "dur")
			if tierThorough() && rapid.IntRange(0, 19).Draw(t, "largeT") == 0 {
				a.Timeout = int32(rapid.IntRange(300, 2000).Draw(t, "timeout"))
			}
			if rapid.IntRange(0, 24).Draw(t, "negTimeout") == 0 {
				// accepted by Store's own validation (it only rejects 0): a timeout that wraps around as uint64
				a.Timeout = int32(rapid.SampledFrom([]int{0, 0, -1, -7, -1 << 31}).Draw(t, "timeout"))
			}
			if twinTimeout != 0 {
				a.Timeout = twinTimeout
			}
			res := s.Do(a)
			if res.OK {
				twinTimeout = a.Timeout
				if rapid.IntRange(0, 3).Draw(t, "cancelled") == 0 {
					T := int(a.Timeout)
					if T < 1 || T > 400 {
						T = 1
					}
					cancelAt[a.Order] = s.C.Height + int64(rapid.IntRange(0, 2*T+1).Draw(t, "cancelDelay"))
				}
				if r := o.orders[a.Order]; r != nil && r.bound > maxBound {
					maxBound = r.bound
				}
				if r := o.pend[a.Order]; r != nil {
					readyAt[a.Order] = s.C.Height + int64(rapid.IntRange(0, 3*int(minI64(r.T, 400))+2).Draw(t, "readyDelay"))
				}
			}
		}
		place()
		if nOrders > 1 && rapid.IntRange(0, 2).Draw(t, "twin") == 0 {
			// a second order in the same block with the same timeout
			nOrders--
			place()
		}
		twinTimeout = 0
		guardBlocks := 0
		for {
			// decide the fate of every newly assigned shard
			for _, sh := range sortedShards(s.Last) {
				if sh.Status != ordertypes.ShardWaiting {
					continue
				}
				if _, seen := decided[sh.Id]; seen {
					continue
				}
				r := o.orders[sh.OrderId]
				if r == nil {
					decided[sh.Id] = 0
					continue
				}
				switch rapid.IntRange(0, 2).Draw(t, "fate") {
				case 0:
					decided[sh.Id] = 0 // silent forever
				default:
					decided[sh.Id] = s.C.Height + int64(rapid.IntRange(0, int(r.T)+2).Draw(t, "delay"))
				}
			}
			for _, id := range chain.SortedU64(cancelAt) {
				if cancelAt[id] > s.C.Height {
					continue
				}
				delete(cancelAt, id)
				if ord, ok := s.Last.Orders[id]; ok && ord.Status != ordertypes.OrderCompleted {
					cn := NewAction("cancel", s.acctOf(ord.Provider))
					cn.Order = id
					if s.Do(cn).OK {
						s.Label("c12-cancelled-by-gateway")
					}
				}
			}
			for _, id := range chain.SortedU64(readyAt) {
				if readyAt[id] > s.C.Height {
					continue
				}
				delete(readyAt, id)
				if ord, ok := s.Last.Orders[id]; ok && ord.Status == ordertypes.OrderPending {
					rd := NewAction("ready", s.acctOf(ord.Provider))
					rd.Order = id
					s.Do(rd)
					if r := o.orders[id]; r != nil && r.bound > maxBound {
						maxBound = r.bound
					}
				}
			}
			for _, sh := range sortedShards(s.Last) {
				if sh.Status == ordertypes.ShardWaiting && decided[sh.Id] != 0 && decided[sh.Id] <= s.C.Height {
					c := NewAction("complete", s.acctOf(sh.Sp))
					c.Order, c.Cid, c.Size = sh.OrderId, sh.Cid, sh.Size_
					s.Do(c)
					decided[sh.Id] = 0
				}
			}
			if nOrders > 1 && rapid.IntRange(0, 30).Draw(t, "second") == 0 {
				nOrders--
				place()
			}
			if (len(readyAt) == 0 && s.C.Height > maxBound+3) || guardBlocks > 12000 {
				break
			}
			// jump to the next height at which something can happen: a decided completion,
			// or the block after a scheduled timeout check (new assignments appear there)
			target := maxBound + 4
			if maxBound == 0 && len(readyAt) > 0 {
				target = 1 << 60 // nothing handed over yet: the next event is a Ready
			}
			for _, at := range decided {
				if at > s.C.Height && at < target {
					target = at
				}
			}
			for _, at := range readyAt {
				if at > s.C.Height && at < target {
					target = at
				}
			}
			for _, at := range cancelAt {
				if at > s.C.Height && at < target {
					target = at
				}
			}
			if nx := s.Last.NextScheduled(s.C.Height - 1); nx > 0 && nx+1 < target {
				target = nx + 1
			}
			if nOrders > 1 && target > s.C.Height+3 {
				target = s.C.Height + 3
			}
			if target <= s.C.Height {
				target = s.C.Height + 1
			}
			adv := NewAction("advance", 0)
			adv.Blocks = target - s.C.Height
			s.Do(adv)
			guardBlocks++
		}
	})
	if aborted != "" {
		stats.Abort(aborted)
		return
	}
	nt := s.Labels["c12-reassigned"]+s.Labels["c12-gave-up"]+s.Labels["c12-replica-reduced"] > 0
	stats.Record(s.HistHash(), nt, s.Labels, s.Excluded, func() any { return compactSummary(s) })
}


// compactSummary merges runs of single-block advances for readable samples.
func compactSummary(s *Sim) []string {
	var out []string
	run := int64(0)
	flush := func() {
		if run > 0 {
			out = append(out, fmt.Sprintf("advance %d block(s), one at a time", run))
			run = 0
		}
	}
	for _, a := range s.Hist {
		if a.Kind == "advance" && a.Blocks == 1 {
			run++
			continue
		}
		flush()
		out = append(out, a.String())
	}
	flush()
	return out
}

func TestC12(t *testing.T) { runRapid(t, "TestC12", c12Property) }

func init() {
	replayers["TestC12"] = func(t TB, v *Violation) {
		o := NewC12()
		s := NewSim(t, "C12", o)
		s.TraceSteps = true
		n := int64(0)
		for _, a := range v.History {
			if a.Kind == "node_create" {
				n++
			}
		}
		o.N = n
		replayHistory(s, v.History)
	}
}

func minI64(a, b int64) int64 {
	if a < b {
		return a
	}
	return b
}
