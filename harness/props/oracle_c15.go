package props

import (
	"fmt"
	"math/big"

	"saoverif/chain"

	nodetypes "github.com/SaoNetwork/sao/x/node/types"
	ordertypes "github.com/SaoNetwork/sao/x/order/types"
)

const selStatus = nodetypes.NODE_STATUS_ONLINE | nodetypes.NODE_STATUS_SERVE_STORAGE | nodetypes.NODE_STATUS_ACCEPT_ORDER
const repFloor = float32(8000.0)

// eligible reports why sp is not eligible for a shard of size bytes in snapshot sn ("" = eligible).
func eligible(sn *chain.Snapshot, sp string, size uint64) string {
	n, ok := sn.Nodes[sp]
	if !ok {
		return "not a registered node"
	}
	if n.Status&selStatus != selStatus {
		return fmt.Sprintf("status %d lacks online|serve-storage|accept-order", n.Status)
	}
	if n.Reputation < repFloor {
		return fmt.Sprintf("reputation %v below floor", n.Reputation)
	}
	p, ok := sn.Pledges[sp]
	if !ok {
		return "no pledge"
	}
	if p.TotalStorage-p.UsedStorage < int64(size) || int64(size) < 0 {
		return fmt.Sprintf("free capacity %d < shard size %d", p.TotalStorage-p.UsedStorage, size)
	}
	return ""
}

// C15Oracle checks the validity predicate on direct selections and on every assignment made in situ.
type C15Oracle struct {
	NopOracle
	Direct, InSitu, Wrongable int
}

func (o *C15Oracle) Name() string { return "C15" }

func (o *C15Oracle) checkSet(s *Sim, where string, sn *chain.Snapshot, chosen []string, ignore []string, size uint64, requested int, trig map[string]string) {
	seen := map[string]bool{}
	for _, sp := range chosen {
		if seen[sp] {
			s.FailT("duplicate-provider", "", trig, "%s: provider %s chosen twice in %v", where, tail(sp), tails(chosen))
		}
		seen[sp] = true
		for _, ig := range ignore {
			if ig == sp {
				s.FailT("ignored-provider-chosen", "", trig, "%s: provider %s is in the ignore/holder list %v", where, tail(sp), tails(ignore))
			}
		}
		if why := eligible(sn, sp, size); why != "" {
			s.FailT("ineligible-provider", "", trig, "%s: provider %s chosen but %s", where, tail(sp), why)
		}
	}
	if requested >= 0 && len(chosen) > requested {
		s.FailT("too-many-chosen", "", trig, "%s: %d providers chosen, %d requested", where, len(chosen), requested)
	}
}

// wrongable: the population offers at least one eligible node beyond the request and ineligible ones, so a wrong pick is possible.
func wrongable(sn *chain.Snapshot, ignore []string, size uint64, requested int) bool {
	el, inel := 0, 0
	ig := map[string]bool{}
	for _, x := range ignore {
		ig[x] = true
	}
	for sp := range sn.Nodes {
		if ig[sp] {
			inel++
			continue
		}
		if eligible(sn, sp, size) == "" {
			el++
		} else {
			inel++
		}
	}
	return el >= requested+1 && inel >= 1
}

func (o *C15Oracle) AfterAction(s *Sim, a *Action, pre, post *chain.Snapshot, res *chain.TxResult) {
	switch a.Kind {
	case "select":
		o.Direct++
		var ignore []string
		for _, i := range a.Ignore {
			ignore = append(ignore, s.bech(i))
		}
		if wrongable(pre, ignore, a.Size, a.Count) {
			o.Wrongable++
			s.Label("wrongable")
		}
		if !a.OK {
			s.FailT("selection-panicked", "", map[string]string{"where": "direct"}, "RandomSP(count=%d, ignore=%v, size=%d) panicked: %s", a.Count, a.Ignore, a.Size, a.Err)
		}
		o.checkSet(s, fmt.Sprintf("RandomSP(count=%d,size=%d,seed=%x)", a.Count, a.Size, s.C.Seed), pre, s.LastSelect, ignore, a.Size, a.Count, map[string]string{"where": "direct"})
	case "store", "ready", "migrate":
		if res.OK {
			o.inSitu(s, a.Kind, pre, post, a)
		}
	}
}

func (o *C15Oracle) Step(s *Sim, step string, pre, post *chain.Snapshot) {
	if step == "sao.EndBlocker" {
		o.inSitu(s, "timeout", pre, post, nil)
	}
}

// inSitu checks every shard created between pre and post.
func (o *C15Oracle) inSitu(s *Sim, where string, pre, post *chain.Snapshot, a *Action) {
	byOrder := map[uint64][]ordertypes.Shard{}
	for _, id := range chain.SortedU64(post.Shards) {
		if _, old := pre.Shards[id]; old {
			continue
		}
		sh := post.Shards[id]
		if sh.Status != ordertypes.ShardWaiting && sh.Status != ordertypes.ShardMigrating {
			continue
		}
		// the order that lists it
		oid := sh.OrderId
		byOrder[oid] = append(byOrder[oid], sh)
	}
	for _, oid := range chain.SortedU64(byOrder) {
		news := byOrder[oid]
		ord, ok := post.Orders[oid]
		if !ok {
			continue
		}
		o.InSitu++
		trig := map[string]string{"where": where, "op": fmt.Sprint(ord.Operation)}
		// providers already holding / timed out on a shard of this order before the step
		var holders []string
		if po, ok := pre.Orders[oid]; ok {
			for _, sid := range po.Shards {
				if sh, ok := pre.Shards[sid]; ok {
					holders = append(holders, sh.Sp)
				}
			}
		}
		var chosen []string
		size := news[0].Size_
		// a force-push keeps the providers of the version it replaces: those are not a selection
		prior := map[string]bool{}
		if where == "store" && ord.Operation == 2 {
			if m, ok := pre.Metas[ord.DataId]; ok {
				if lo, ok := pre.Orders[m.OrderId]; ok {
					for _, sid := range lo.Shards {
						if sh, ok := pre.Shards[sid]; ok {
							prior[sh.Sp] = true
						}
					}
				}
			}
		}
		all := map[string]bool{}
		for _, sh := range news {
			if all[sh.Sp] {
				s.FailT("duplicate-provider", "", trig, "%s order %d: provider %s assigned two new shards", where, oid, tail(sh.Sp))
			}
			all[sh.Sp] = true
			if !prior[sh.Sp] {
				chosen = append(chosen, sh.Sp)
			}
		}
		requested := -1
		if where == "store" || where == "ready" {
			requested = int(ord.Replica)
			if len(news) != int(ord.Replica) {
				s.FailT("under-or-over-replicated", "", trig, "%s order %d: replica=%d but %d shards were created", where, oid, ord.Replica, len(news))
			}
		}
		if where == "migrate" {
			requested = 1
		}
		if wrongable(pre, holders, size, len(chosen)) {
			o.Wrongable++
			s.Label("wrongable")
		}
		o.checkSet(s, fmt.Sprintf("%s order %d", where, oid), pre, chosen, holders, size, requested, trig)
	}
}

// refIndexValid is the validity predicate of RandomIndex.
func refIndexValid(idx []int, total, count int) string {
	if total <= count {
		if len(idx) != 0 {
			return "total<=count must yield no indexes"
		}
		return ""
	}
	if len(idx) != count {
		return fmt.Sprintf("%d indexes, %d requested", len(idx), count)
	}
	seen := map[int]bool{}
	for _, i := range idx {
		if i < 0 || i >= total {
			return fmt.Sprintf("index %d out of [0,%d)", i, total)
		}
		if seen[i] {
			return fmt.Sprintf("index %d drawn twice", i)
		}
		seen[i] = true
	}
	return ""
}

var _ = big.NewInt
