# Per-property campaign configuration used by ./check.
# tests: list of Go test functions; quick/thorough = total rapid cases (split over shards).

LIFE_ASSUME = [
    "L2 block driver: production handlers, hooks and begin/end-blockers on a cache-wrapped multistore; ante handler, gas and IAVL commit are not executed (driver conformance L1==L2 is checked under C01)",
    "lean blocks run only the six SAO modules' blockers; every height is executed one by one",
    "generated search: absence of violations is not established",
]

PROPS = {
    "C13": {
        "tests": [{"name": "TestC13", "quick": 480, "thorough": 8000}],
        "rule": "stateful histories (store/update/force-push/complete/cancel/terminate/renew/migrate/claim/advance, 1-40 actions after world setup) on the L2 driver; invariants R1-R4 and the query symptom are evaluated at every observed block boundary and, after every successful message, on a fork whose block is closed. Non-trivial = a boundary had >=2 orders and >=3 shards and the history contains a relation-rewriting step (migration, rotation, terminate, cancel, renew, force-push). Distinct = hash of the executed action list with outcomes.",
        "assumptions": LIFE_ASSUME + ["R5/R6 of DESIGN are observations; only R1-R4 and NotFound from the public Metadata/Order queries are violations"],
    },
    "C14": {
        "tests": [{"name": "TestC14", "quick": 480, "thorough": 8000}],
        "rule": "same history generator as C13; per-provider equalities (UsedStorage, Worker.Storage, Worker.IncomePerSecond, TotalShardPledged vs. the completed shards it holds) and pool totals evaluated at every observed boundary and on closed-block forks after every message. Non-trivial = >=2 providers held a shard at some boundary and a decrement path ran (expiry, migration, terminate). Distinct = hash of executed history.",
        "assumptions": LIFE_ASSUME + ["Pool.TotalPledged is compared with the sum of capacity pledges only"],
    },
}
