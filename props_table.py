# Per-property campaign configuration used by ./check.
# tests: list of Go test functions; quick/thorough = total rapid cases (split over shards).

LIFE_ASSUME = [
    "L2 block driver: production handlers, hooks and begin/end-blockers on a cache-wrapped multistore; ante handler, gas and IAVL commit are not executed (driver conformance L1==L2 is checked under C01)",
    "lean blocks run only the six SAO modules' blockers; every height is executed one by one",
    "generated search: absence of violations is not established",
]

PROPS = {
    "C13": {
        "tests": [{"name": "TestC13", "quick": 480, "thorough": 8000}],
        "rule": "stateful histories (store/update/force-push/complete/cancel/terminate/renew/migrate/claim/advance, 1-40 actions after world setup) on the L2 driver; invariants R1-R4 and the query symptom are evaluated at every observed block boundary and, after every successful message, on a fork whose block is closed. Non-trivial = a boundary had >=2 orders and >=3 shards and the history contains a relation-rewriting step (migration, rotation, terminate, cancel, renew, force-push). Distinct = hash of the executed action list with outcomes.",
        "assumptions": LIFE_ASSUME + ["R5/R6 of DESIGN are observations; only R1-R4 and NotFound from the public Metadata/Order queries are violations"],
    },
    "C14": {
        "tests": [{"name": "TestC14", "quick": 480, "thorough": 8000}],
        "rule": "same history generator as C13; per-provider equalities (UsedStorage, Worker.Storage, Worker.IncomePerSecond, TotalShardPledged vs. the completed shards it holds) and pool totals evaluated at every observed boundary and on closed-block forks after every message. Non-trivial = >=2 providers held a shard at some boundary and a decrement path ran (expiry, migration, terminate). Distinct = hash of executed history.",
        "assumptions": LIFE_ASSUME + ["Pool.TotalPledged is compared with the sum of capacity pledges only"],
    },
    "C15": {
        "tests": [
            {"name": "TestC15Direct", "quick": 4000, "thorough": 80000},
            {"name": "TestC15InSitu", "quick": 320, "thorough": 6000},
            {"name": "TestC15RandomIndex", "quick": 40000, "thorough": 400000, "max_shards": 4},
            {"name": "TestC15RandomIndexBox", "quick": 1, "thorough": 1, "max_shards": 1},
        ],
        "rule": "(direct) node populations of 3-12 nodes installed as genesis would (status bitmask, reputation around the floor, role, last-alive height, free capacity size-1/size/large/none, super-node cursor), then 1-12 RandomSP calls with generated count, ignore list, shard size and header AppHash (empty, 1 byte, zeros, 32 random bytes); (in situ) every shard assignment made by Store, timeout handling and Migrate inside lifecycle histories, judged against the node state right before the step; (pure) RandomIndex over structured seeds, and the complete box 0<=count<total<=8 x seeds 0..20000 (quick) / 200000 (thorough). Oracle = validity predicate: chosen providers pairwise distinct, disjoint from ignore list / current and timed-out holders, each online+serve-storage+accept-order with reputation>=8000 and free capacity>=size, no more than requested, and Store/Ready create exactly `replica` shards or fail. Non-trivial = the population had at least requested+1 eligible nodes and >=1 ineligible/ignored one, so a wrong pick was possible (RandomIndex: count>=2). Distinct = hash of executed history / input triple.",
        "assumptions": LIFE_ASSUME + ["providers kept by a force-push (operation 2) from the version it replaces are not treated as a selection; only the additional ones are",
                                      "exhaustive:true refers only to the stated RandomIndex box"],
    },
    "C02": {
        "tests": [
            {"name": "TestC02History", "quick": 160, "thorough": 4000},
            {"name": "TestC02Select", "quick": 2000, "thorough": 40000},
            {"name": "TestC02RandomIndex", "quick": 40000, "thorough": 400000, "max_shards": 4},
        ],
        "rule": "lifecycle histories with the hostile value grammars (replica -1/0/N+1/2^30, timeout negative or >= duration, sizes 0..2^64-1, durations, commit expressions, operations) and generated header AppHash (empty, 1 byte, zeros, random), drained across every scheduled height; every BeginBlock / message / EndBlock runs under a 20 s per-step deadline and begin/end-block panics are chain halts. Plus direct RandomSP calls over generated populations and cursors and RandomIndex over structured seeds under the same deadline. Non-trivial = the history reached a shard expiry, renewal rotation, timeout re-assignment or give-up, replica reduction or data expiry (selection tests: a super node was present; RandomIndex: count>=2).",
        "assumptions": LIFE_ASSUME + ["per-step deadline 20 s on small states stands for 'bounded time'; growth of per-block cost with state size is not measured"],
    },
    "C05": {
        "tests": [{"name": "TestC05", "quick": 240, "thorough": 5000}],
        "rule": "lifecycle histories weighted towards orders that end before any completion: creator Cancel at any point (pending, after 1-3 timeout re-assignments), ten-interval give-up (providers made ineligible through Reset), updates / force-pushes over committed models, terminate and re-creation of the same data id; timeouts 2-12 blocks. Oracle around the ending step (message, or the sao end-blocker step traced individually): payer balance rises by exactly the amount charged, the order and all shards it ever listed are gone, no provider's UsedStorage / TotalShardPledged changed, and the model equals its pre-Store snapshot field by field (or is gone with its alias). Non-trivial = an order that had been charged ended this way and (it was re-assigned before, or it was an update over a committed model, or it ended by timeout).",
        "assumptions": LIFE_ASSUME + ["the model comparison is skipped when another owner-signed request (terminate, permission update, another order's completion) changed the same data id in between",
                                      "exact refund / reservation comparison in an end-blocker step only when exactly one order ended and no other order or stored shard changed in that step; otherwise refund >= charged"],
    },
    "C06": {
        "tests": [{"name": "TestC06", "quick": 400, "thorough": 8000}],
        "rule": "lifecycle histories with renewals, migrations, claims, capacity changes and providers drained of funds (bank sends) so that collateral debts arise. At every observed block boundary and on a closed-block fork after every message each escrow (order, market, node, did) must hold at least its liabilities computed from the chain's own records (pending order amounts; worker rewards + future income of stored shards + queued renewals + waiting shards of deposited orders; capacity + shard pledges - recorded debt + claimable block rewards; DID balances), tolerance 1 coin per record. Terminate / Cancel / ClaimReward / RemoveVstorage must not fail with insufficient funds. Non-trivial = >=2 escrows non-zero at some boundary and the history has a debt, renewal, migration or claim.",
        "assumptions": LIFE_ASSUME + ["liabilities are computed only from records the chain itself keeps; surplus in an escrow is C04's business"],
    },
    "C11": {
        "tests": [{"name": "TestC11", "quick": 160, "thorough": 4000}],
        "rule": "lifecycle histories (stores with different durations, shards completed at different heights, 0-3 renewals, migrations, updates and force-pushes, cancel + re-creation of the same data id) drained across every scheduled height and every height the reference model expects an end. Reference model per stored shard: paidUntil = completion height + paid duration + renewals (migration hands the remaining term over). At each observed boundary: before paidUntil the shard exists, is Completed, keeps its provider, the provider still earns, model and alias exist; at paidUntil it is gone; the model never disappears while a paid shard remains and disappears when its last shard goes (unless a new version is in flight). Non-trivial = at least one shard reached its paidUntil through block advance.",
        "assumptions": LIFE_ASSUME + ["terminate, force-replace of the latest version and completed migration end a shard legitimately"],
    },
    "C04": {
        "tests": [{"name": "TestC04", "quick": 160, "thorough": 4000}],
        "rule": "lifecycle histories (sizes 1e3-1e8, replica 1-3, durations 3600-12000, owner-paid and sponsor-paid, updates, force-pushes, 0-3 renewals, migrations, terminate at any height, cancel, timeouts with replica reduction, claims at arbitrary heights) drained to quiescence, then every provider claims. Reference ledger: (1) a successful Store / each SUCCESS entry of Renew debits exactly one account - sponsor's payment address if a payment DID is given, else the owner DID's payment address - by ceil(1e-6*size*replica*duration); failed messages move nothing; (2) escrow money (order+market+did accounts) only moves between escrows and client accounts, and a client gains only when it is payer / owner payment address of an order that ended or shrank in that step; (3) per provider, market payouts + unclaimed worker reward = sum over the shards it held of 1e-6*size*blocks held (1 coin per holding interval); (4) whenever orders end or shrink (terminate, cancel, expiry, timeout, replica reduction, force-push), client-side receipts = charged - income earned - earlier refunds within 1 coin per shard settlement + 1 per order; (5) at quiescence nothing but dust remains in the order/market escrows. Non-trivial = an order that was charged ended and a provider claimed.",
        "assumptions": LIFE_ASSUME + ["refunds may go to the payer or to the owner's payment address (both allowed by the statement)", "no provider is drained of funds in this campaign, so market payouts are not mixed with collateral-debt repayment (C06/C07 cover debts)"],
    },
    "C07": {
        "tests": [{"name": "TestC07", "quick": 200, "thorough": 5000}],
        "rule": "lifecycle histories with AddVstorage / RemoveVstorage around the 1e6-byte-per-coin rounding boundary (k*1e6 + {-1,0,+1}, huge sizes), completions, renewals with top-ups, drained providers (collateral debt), migrations, expiries, terminations, claims. Per step (message, or the sao end-blocker traced individually) and per provider: balance change = collateral of its shards that ended (as recorded when taken, including renewal top-ups) - collateral newly taken + change of its recorded debt, exactly; the node escrow changes by exactly the sum of those flows (nothing leaks to anyone else); RemoveVstorage / ClaimReward change nobody else's balance; a failed message moves nothing; RemoveVstorage never removes more than the free capacity; 0 <= UsedStorage <= TotalStorage; capacity pledge returned never exceeds what was paid in. Non-trivial = a shard with recorded collateral ended and the provider had another pledge-affecting action (add/remove capacity, renewal, claim).",
        "assumptions": LIFE_ASSUME + ["providers are not payers in generated worlds, so a provider's balance moves only through collateral, claims, capacity pledges and explicit bank sends"],
    },
    "C08": {
        "tests": [{"name": "TestC08", "quick": 320, "thorough": 6000}],
        "rule": "generated parameter sets (block reward 0..6.25e6, baseline below/above the reachable pledge, APY 0..25, halving period 11..3.2e7, adjustment period 11..2000; optionally a pool whose reward counter is already at 2e14..4e14-1e3 to reach later halving ages) x lifecycle histories dominated by AddVstorage/RemoveVstorage, completions/releases (all settle pending reward) and claims. The node begin-blocker of EVERY height is bracketed by supply and pool reads: minted m_h >= 0, m_h <= BlockReward >> age (age recomputed with integer arithmetic), m_h = 0 when nothing is pledged, m_h <= floor(TotalPledged*APY/(HalvingPeriod/2)) while below baseline, Pool.TotalReward grows by exactly m_h, and the supply does not change anywhere else (messages, end-blockers). Reference model of the pro-rata share: sum over mints of m_h*capacity_p/total capacity; at each claim claimed-so-far + claimable = share (1 coin + 1e-18*blocks*bytes), the claim pays exactly the whole-coin part of the accrued share, and sum(claimed)+sum(claimable) <= minted. Non-trivial = coins were minted, a capacity changed between two mints and a claim followed.",
        "assumptions": LIFE_ASSUME + ["providers are funded, so no collateral debt is repaid out of claims in this campaign", "halving ages > 0 are reached through an installed Pool.TotalReward (a genesis field), not by executing 1e14 blocks"],
    },
    "C12": {
        "tests": [{"name": "TestC12", "quick": 1600, "thorough": 30000}],
        "rule": "1-2 orders handed to providers by their gateway (replica 1..N, N = 3..5 eligible providers, timeout 2-25 mostly, 50-300, 300-2000 in the thorough tier, negative values that Store's own validation accepts, duration 3600-9000); the generator owns the silence pattern: for every shard assignment (initial or after re-assignment) it draws whether the provider stays silent or completes after 0..T+2 blocks, and plays it as ordinary complete/advance actions. Oracle (bounded liveness as safety): while unfinished the order is named by a future TimeoutOrder entry; by created+(10+N+2)*T it is resolved (fully stored for its possibly reduced replica count, or gone); replica reductions and give-ups refund the unfulfilled part in the same end-blocker step; once fully stored its replica count, amount, status and completed shards never change again and nothing is re-assigned (until the end of the paid term). Non-trivial = a re-assignment, a replica reduction or a give-up happened.",
        "assumptions": LIFE_ASSUME + ["'eventually' is replaced by the explicit bound (10 + N + 2) timeout intervals", "deleting dead Timeout-status shard records after completion is tolerated", "orders never handed to providers (client Store without Ready) are outside the statement"],
    },
    "C16": {
        "tests": [{"name": "TestC16", "quick": 400, "thorough": 8000}],
        "rule": "one or two data models, owner + read-write grantee + several gateways; interleavings of Store (new, update, force-push) while another update is in flight, Complete, Cancel, timeouts, terminate, renew, with the base|new commit field drawn from the hostile commit grammar and signed by authorised principals: exact latest, older version, prefix / suffix / inner substring / single character of the latest id, empty base, no separator, several separators, unrelated base. Reference model per data id: chain V of accepted versions and the update in flight. Oracle: new order and shard ids are strictly greater than every id ever observed and removed ids never reappear (counters never decrease); a Store on an existing model succeeds only if nothing is in flight and its base (text before the first '|', or the whole field) equals last(V); only the in-flight order's completion commits a version; Metadata.Commits equals V at every boundary and after every message (update appends, force-push replaces the last entry); at most one non-final order per data id. Non-trivial = a Store was attempted while one was in flight or with a base other than the latest, and an update completed.",
        "assumptions": LIFE_ASSUME + ["'names the latest committed version as its base' is read as equality of the text before the first '|' (or the whole field) with the latest commit id; re-submitting the current commit id is therefore accepted"],
    },
}
