#!/usr/bin/env python3
"""Regenerates MANIFEST.json from props_table.py (claimed checks) and the list of all properties."""
import json, os, sys
ROOT = os.path.dirname(os.path.dirname(os.path.abspath(__file__)))
sys.path.insert(0, ROOT)
from props_table import PROPS
allp = [json.loads(l)["id"] for l in open(os.path.join(ROOT, "properties.jsonl"))]
PENDING = {}
try:
    from props_table import NOT_APPLICABLE
    PENDING = NOT_APPLICABLE
except ImportError:
    pass
checks = []
for pid in allp:
    if pid not in PROPS:
        continue
    sp = PROPS[pid]
    checks.append({
        "property_id": pid,
        "quick_cmd": f"./check {pid} --tier quick",
        "thorough_cmd": f"./check {pid} --tier thorough",
        "evidence_file": f"evidence/{pid}.json",
        "replay_cmd_template": f"./check {pid} --replay {{path}}",
        "engine": "saoverif",
        "level_claimed": {
            "category": "exploration",
            "text": sp.get("level_text", "Generated-input search (rapid stateful histories / structured generators) against an explicit oracle on the real application code; finds violations and shrinks them to a replayable history, does not establish absence."),
            "design_ref": sp.get("design_ref", "DESIGN.md section 2, " + pid),
        },
        "level_note": "; ".join(sp.get("assumptions", [])),
        "technique": sp.get("technique", "property-based testing: rapid stateful history generation against invariant / reference-model oracles, delta-debugged replay files"),
    })
na = [{"property_id": p, "reason": PENDING.get(p, "check not built yet in this round; planned in DESIGN.md section 2")} for p in allp if p not in PROPS]
m = {
    "version": 1,
    "setup_cmd": "./check --setup",
    "hooks": {
        "guard": "verif",
        "enable": "go test -tags verif (the harness builds /repo through a replace directive)",
        "baseline_off_cmd": "cd /repo && go test -mod=mod -json -vet=off -count=1 -timeout 25m ./...",
        "source_commits": [],
        "add_only": True,
    },
    "engines": [{"name": "saoverif", "path": "harness", "serves_properties": [c["property_id"] for c in checks],
                 "kind_free_text": "Go test binary (pgregory.net/rapid v1.3.0) driving the real app in-process; python driver ./check shards, replays, writes evidence"}],
    "checks": checks,
    "not_applicable": na,
    "notes": "All checks rebuild the harness against /repo's working tree. known_findings.json lists open findings (printed as KNOWN-FINDING) and fixed ones (fix: commits in /repo).",
}
json.dump(m, open(os.path.join(ROOT, "MANIFEST.json"), "w"), indent=1)
print("claimed:", [c["property_id"] for c in checks], "not_applicable:", [n["property_id"] for n in na])
