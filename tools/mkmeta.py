#!/usr/bin/env python3
"""Write seeded/<id>/meta.json for the round-2 changes from the static descriptions below and seeded/RESULTS.tsv."""
import json, os, csv, collections
D = {
 "S-C01-2": ("Renew iterates over a Go map of the requested data ids instead of the request's slice", "a Renew naming >= 2 models in one message (result order, order ids and events then depend on map iteration order)"),
 "S-C02-2": ("DoPenalty decodes fault index entries with MustUnmarshal instead of skipping what does not decode", "a recorded fault (accepted MsgReportFaults by a fishman node on a live shard) and a block height divisible by 600"),
 "S-C03-2": ("node keeper memoises OfflineTriggerHeight in a process-wide cache that only the keeper's own setters refresh", "a governance parameter change of node/OfflineTriggerHeight, then a restart, then a node whose last keep-alive falls between the old and the new trigger"),
 "S-C04-2": ("Withdraw derives a paid shard's end of period from order.Duration instead of shard.Duration", "a shard whose term differs from its order's (migrated shard), then terminate / force-push over it"),
 "S-C05-2": ("RefundOrder always pays the owner's payment address, also for sponsor-paid orders", "an order paid through PaymentDid that is cancelled or given up before storage started"),
 "S-C06-2": ("Withdraw refunds the full share for every shard that is not completed (also Migrating and Timeout shards)", "terminate / force-push while a migration is pending or a timed-out assignment is still listed: the share is refunded twice"),
 "S-C07-2": ("RemoveVstorage compares the coins withdrawn with the used capacity rounded down to whole pledge units", "UsedStorage not a multiple of 1e6 and a removal that reaches into the partly used unit (nearly all free capacity)"),
 "S-C08-2": ("RemoveVstorage subtracts the raw requested size from pool.TotalStorage instead of the size actually removed", "a removal whose requested size differs from the rounded size that is taken off the pledge"),
 "S-C09-2": ("UpdatePermission accepts a request signed by a read-write grantee", "a model with a read-write grantee that submits an owner-only permission update"),
 "S-C10-2": ("Ready accepts the delegated branch (creator listed in TxAddresses of the provider named in the message) without tying that provider to the order", "a pending order and a third party whose own node lists the victim's address"),
 "S-C11-2": ("a migrated shard takes its duration from the order instead of the remaining paid period", "migration some time after completion, then the end of the paid term"),
 "S-C12-2": ("Ready schedules the timeout check at order.CreatedAt+Timeout instead of current height+Timeout", "the READY path (order submitted by an account bound to the owner) with MsgReady arriving later than one timeout interval after the Store"),
 "S-C13-2": ("HandleTimeoutOrder's give-up branch stores the order only when the refund is non-zero", "replica >= 2 partly completed, no replacement provider, ten intervals elapsed, and a refund that truncates to zero (size*duration < 500000)"),
 "S-C14-2": ("Withdraw returns early once the order's term has ended, before the worker record is released", "a shard that ends exactly when its order's term ends (ordinary expiry after claims)"),
 "S-C15-2": ("GetNextSuperNodes overwrites the ignore list instead of appending to it", "selection that falls back to super nodes while some of them already hold a shard / are to be ignored"),
 "S-C16-2": ("force-push drops one history entry per settled order instead of one per force-push", "the latest version has been renewed (so two orders carry its commit), then a force-push completes"),
 "S-C17-2": ("UpdatePaymentAddress lets a did:key's payment address be replaced by an address that has no key DID yet", "a second UpdatePaymentAddress for a did:key, submitted from a fresh address"),
 "S-C18-2": ("GetAllPastSeeds decodes into one shared variable (gogoproto appends repeated fields)", "two did:sid identities that have each rotated their keys, then export -> InitChain"),
 "S-C19-2": ("ReportFaults no longer looks the reporter up as a node: being listed in fishmen_info suffices", "an address listed as fishman that is not a registered node reports a fault"),
 "S-C02-3": ("ShardPledge subtracts the unpaid part (pledge debt) from TotalShardPledged when a provider takes over a renewed shard it cannot fully collateralise", "store, complete, renew, migrate to a provider whose balance is positive but below the collateral, two periods later the release makes TotalShardPledged negative: panic in the sao end-blocker"),
 "S-C04-3": ("Renew prices the renewal by len(order.Shards) instead of order.Replica", "a renewal issued while a migration of the order is pending (the order lists the old and the new shard)"),
 "S-C05-3": ("RollbackMeta restores OrderId from Orders[len(Commits)-1] instead of the last order", "a model that has been renewed (Orders longer than Commits), then an update on it is cancelled or times out"),
 "S-C06-3": ("ClaimReward moves the whole debt repaid (incl. the block-reward part) from the market escrow to the node escrow", "block reward > 0, a provider with pledge debt that claims with unclaimed block reward"),
 "S-C07-3": ("ShardPledge builds the coins to transfer before the amount is raised to the highest queued renewal collateral", "renew with a longer term, then migration: the new provider is charged the base amount while the raised amount is recorded and later returned"),
 "S-C11-3": ("ResetMetaDuration skips renewal orders when recomputing the model's lifetime", "renew, rotation into the renewal (original order removed), then an update on the model is cancelled or times out: the model is deleted while its shard is paid"),
 "S-C12-3": ("Cancel removes the whole TimeoutOrder record of the cancelled order's check height", "two unfinished orders whose timeout checks fall on the same height, one is cancelled, a provider of the other stays silent"),
 "S-C13-3": ("Renew skips shards in status Timeout instead of refusing", "timeout re-assignment, replacement completes, renew before the next timeout check: the renewal order keeps listing the removed shard"),
 "S-C14-3": ("ShardPledge adds to TotalShardPledged before the amount is raised to the queued renewal collateral", "renew with a longer term, then migration completed by a new provider"),
 "S-C16-3": ("UpdateMetaStatusAndCommit returns early (before recording the update in flight) when the model already outlives the new order", "an update with a shorter term than what is left of the model (or after a renewal), then a second Store on the same base while it is in flight"),
 "S-C01-3": ("Migrate collects unknown data ids in a Go map and appends the per-id answers by ranging over it", "a MsgMigrate naming >= 2 data ids that do not exist (result data then depends on map iteration order)"),
 "S-C03-3": ("HandleTimeoutOrder counts re-assignment rounds in a keeper map (process memory) instead of deriving them from the order's age", "an order that keeps timing out without replacement provider, a restart between the first and the eleventh round"),
 "S-C08-3": ("GetRewardAge recomputed with an integer loop that uses < instead of <= at the halving boundary", "total pledge >= baseline and the cumulative reward landing exactly on a halving boundary (e.g. block reward 5e13)"),
 "S-C09-3": ("Store applies the proposal's readonly/readwrite lists to an existing model on update (passing meta.Owner to the model keeper)", "a read-write grantee signs a content update whose proposal carries access lists"),
 "S-C10-3": ("Complete also accepts a signer listed in TxAddresses of the order's gateway", "the gateway's registered hot key sends MsgComplete naming another provider's shard"),
 "S-C15-3": ("RandomSP drops ignored providers in one forward pass while deleting (skips the element after each removal)", "an ignore list with two providers adjacent in store order"),
 "S-C17-3": ("Binding checks the proof's age only when it creates a new DID", "an old proof replayed to bind an account to an existing DID (e.g. after MsgUpdate removed it)"),
 "S-C18-3": ("node ExportGenesis skips pledges whose storage and shard collateral are both zero", "a provider that withdrew all capacity and holds no shard at export time"),
 "S-C19-3": ("ReportFaults compares the looked-up metadata's data id with itself instead of the order's", "a report whose order/shard/provider are consistent but whose data id names another existing model"),
 "S-C20-3": ("CheckDelegationShare divides the node's shares by the validator's tokens instead of its delegator shares", "a slashed validator (tokens < shares) and a node just below the threshold"),
 "S-C04-4": ("market Claim saves the worker record on the 'less than one coin' early return without moving LastRewardAt", "a provider whose pending income is below one coin claims repeatedly (small shards / frequent claims): the same blocks are counted again"),
 "S-C05-4": ("MsgCancel removes only Completed / Waiting / Migrating shards (a status switch)", "an order re-assigned at least once (Timeout-status shards) is cancelled before any completion"),
 "S-C06-4": ("ShardPledge builds the coins to transfer before the raise to the queued renewal collateral (same mechanism as S-C07-3, kept as a C06 change)", "longer renewal, migration, new provider can afford it: recorded collateral exceeds what was paid in"),
 "S-C07-4": ("Renew assigns instead of adds a second collateral shortfall to the recorded debt (same mechanism as S-C06-1)", "two under-funded top-ups before the first debt is repaid, then the shard ends"),
 "S-C08-4": ("ClaimReward returns early when nothing is left to pay after the debt repayment, skipping the write that consumes the accrued reward", "provider with debt >= its accrued reward (>= 1 coin) claims; the same reward repays debt again on every claim"),
 "S-C11-4": ("removeDataExpireBlock writes back the unfiltered list when other models share the height", "two models scheduled for deletion at the same height, one of them renewed"),
 "S-C12-4": ("SetTimeoutOrderBlock prunes ids of orders that are gone or OrderCompleted when appending to an existing height", "a replica-2 order with one shard stored and one silent (status Completed) and another order scheduled onto the same height"),
 "S-C13-4": ("MigrateShard files the new shard under the old shard's order instead of the order that lists it", "migration of a shard with a queued renewal, the paying order ends while the migration is pending"),
 "S-C14-4": ("rotation into a renewal also sets shard.Pledge to the renewal's collateral", "renewal shorter than the running period, rotation, final expiry"),
 "S-C16-4": ("Store skips the base-commit comparison for force-pushes", "force-push naming a stale or garbage base on a committed model"),
 "S-C01-4": ("RandomSP rebuilds the candidate list by ranging over a Go map after deleting the ignored providers", "a selection with a non-empty ignore list (timeout re-assignment, migration) and >= 2 remaining candidates that tie"),
 "S-C02-4": ("RemoveVstorage takes the requested byte count (not the rounded one) off the pledge and the pool", "unaligned removals until every provider has no capacity left while coins stay pledged: division by zero in BeginBlock"),
 "S-C03-4": ("model keeper keeps an in-memory index of heights with ExpiredData entries (not transactional)", "a simulated or failed transaction that reschedules a model, then the chain reaches the old height; a restarted node rebuilds the index"),
 "S-C09-4": ("model UpdatePermission treats a request with exactly one empty list as a partial update", "owner demotes a read-write grantee to read-only (readwrite list empty)"),
 "S-C10-4": ("Store compares the sponsor's payment address with msg.Provider instead of msg.Creator", "a Store naming somebody else's payment DID with msg.Provider = that sponsor's address"),
 "S-C15-4": ("Migrate no longer excludes providers holding a Migrating shard of the order", "a second holder migrates the same data while the first hand-over is pending"),
 "S-C17-4": ("eip155 binding proofs compare the recovered address case-insensitively while records are keyed by the raw account id", "the same ethereum account bound to a second DID under another letter case"),
 "S-C18-4": ("market ExportGenesis skips workers with no storage and less than one coin of reward", "an idle worker holding a fraction of a coin at export time"),
 "S-C19-4": ("RecoverFaults checks only provider and shard id of an entry against the stored record", "recovery declared with a self-consistent entry for another order carrying the faulty shard's id"),
 "S-C20-4": ("verifySuperStorageNodes re-verifies only the delegator's own node when the delegator is a node", "super node A diluted below the threshold by a delegation of another storage node B"),
 "S-C01-5": ("BeforeDelegationCreated clears the hook's package variable only when the validator already has shares", "a leftover in process memory on one replica (simulated failing delegation), then a MsgCreateValidator (validator with exactly zero shares) by a storage node"),
 "S-C02-5": ("GetRewardAge tests remain < 0 instead of TotalReward >= cap", "Pool.TotalReward exactly equal to the cap: division by zero in BeginBlock"),
 "S-C03-5": ("GetNextSuperNodes resets the cursor by writing into the slice returned by the store (no Set)", "cursor exactly equal to the number of super nodes after the set shrank, a failing transaction, the set grows back, a restart in between"),
 "S-C04-5": ("Store quotes floor(price)+1 instead of ceil(price)", "size x replicas x duration an exact multiple of 1,000,000 (whole-coin price)"),
 "S-C05-5": ("Store refuses only negative timeouts (< 0 instead of <= 0)", "a timeout of exactly 0: the check is scheduled in the creating block and never re-armed"),
 "S-C06-5": ("SetExpiredShardBlock drops an expiry at exactly the current height (<= instead of <)", "a migration completed in exactly the last block of the old shard's term"),
 "S-C07-5": ("AddVstorage credits (size/unit + 1) units", "a size that is an exact multiple of 1,000,000: one unit of capacity that no coin pays for"),
 "S-C08-5": ("AddVstorage rebuilds the pledge record when TotalStorage is exactly 0 (accrued reward lost)", "withdraw exactly all capacity with unclaimed reward, then add capacity again"),
 "S-C09-5": ("model EndBlocker looks up the expiry list of height+1", "the very last block of the model's paid lifetime: removed one block early, a stranger can re-create the data id"),
 "S-C10-5": ("did Update does not delete the accountId->did record of the last removed account (off-by-one)", "an account dropped from the owner DID by a key rotation then submits the owner's proposal"),
 "S-C11-5": ("HandleExpiredShard's removal loop never examines the last element of order.Shards", "replica >= 2 and the last-listed shard ends before an earlier-listed one"),
 "S-C12-5": ("Store refuses only negative timeouts", "a timeout of exactly 0"),
 "S-C13-5": ("SetExpiredShardBlock drops an expiry at exactly the current height", "migration completed in exactly the last block of the old shard's term"),
 "S-C14-5": ("force-push settlement loop stops at index 1 (i > 0)", "force-push over a model whose only commit has been renewed (Orders = [store, renewal])"),
 "S-C15-5": ("the early 'size 0 means 1' normalisation in Store is removed (selection runs with size 0)", "a proposal of size exactly 0 while a needed provider has exactly no free capacity"),
 "S-C16-5": ("Terminate's in-flight guard uses (MetaNew, MetaComplete) instead of [MetaNew, MetaComplete)", "terminate of a model in its initial state, re-creation of the data id, completion of the left-over order"),
 "S-C17-5": ("parseAcccountId re-implemented with FieldsFunc, which drops empty segments", "the canonical account id with a trailing ':' binds the same account to a second DID"),
 "S-C18-5": ("GetAllTimeoutOrder (used by the export) skips entries at height <= H+1", "export taken in the block right before a scheduled timeout check"),
 "S-C19-5": ("same loop slip as S-C11-5 (finished order keeps listing its last shard)", "replica 2 completed in reverse list order, renewed, a fishman reports the shard under the finished order"),
 "S-C20-5": ("RemoveVstorage demotes only when 0 < remaining < threshold", "a super node withdraws exactly all of its capacity"),
 "S-C20-2": ("the staking hook takes the absolute value of the share delta, so a top-up is counted as a reduction", "a node right around the share threshold whose delegation is modified (top-up) after another delegation changed the validator's total"),
}
res = collections.defaultdict(list)
with open('/verif/seeded/RESULTS.tsv') as f:
    for r in csv.DictReader(f, delimiter='\t'):
        res[r['change']].append(r)
for id_, (change, needs) in D.items():
    d = f'/verif/seeded/{id_}'
    if not os.path.isdir(d):
        continue
    rs = res.get(id_, [])
    caught = [r['check'] for r in rs if r['rc'] == '1']
    silent = [r['check'] for r in rs if r['rc'] == '0']
    meta = {
        "id": id_, "breaks_property": id_[2:5], "round": int(id_[-1]), "change": change, "needs_to_manifest": needs,
        "confirmed": "tools/confirm_seeded.sh in the agent's scratch worktree: go build ./x/... ./app/... ./cmd/... ok; demo/demo_test.go FAILS with patch.diff applied and PASSES without; 47/47 baseline tests still pass with the patch",
        "checks_run": "tools/seeded_matrix.sh (git apply to /repo, ./check <id> --tier quick at VERIF_SEED=1, git checkout): " + ", ".join(f"{r['check']} rc={r['rc']} violations={r['violations']} {r['first_rule']}" for r in rs),
        "caught_by": caught, "silent": silent,
    }
    json.dump(meta, open(d + '/meta.json', 'w'), indent=1)
    print(id_, caught, silent)
