import json,sys
v=json.load(open(sys.argv[1]))
print(v['property'],v['rule'],v.get('site'),v['detail'][:600])
def fmt(a):
    keys=['kind','creator','owner','propProv','payDid','dataId','commit','op','size','replica','duration','timeout','order','data','blocks','ok','err','note','h']
    return ' '.join(f"{k}={a[k]}" for k in keys if k in a and a[k] not in (None,'',[],-1))
for a in v['history']:
    print('  ',fmt(a))
