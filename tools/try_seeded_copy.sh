#!/bin/bash
# try_seeded_copy.sh <seeded-dir> <prop> [<prop>...] : evaluate a seeded change on scratch copies of /repo and /verif
# under /tmp (removed afterwards). Nothing in /repo or /verif is touched, so it can run beside other checks.
set -u
d=$(realpath $1); id=$(basename $d); shift
work=/tmp/mut-$id-$$
rm -rf $work; mkdir -p $work/repo $work/verif
trap 'rm -rf $work' EXIT
rsync -a --exclude .git /repo/ $work/repo/
rsync -a --exclude .git --exclude .out --exclude .build --exclude .scratch ${VERIF_SRC:-/verif}/ $work/verif/
sed -i "s#=> /repo\$#=> $work/repo#" $work/verif/harness/go.mod
grep -q "$work/repo" $work/verif/harness/go.mod || { echo "go.mod replace not rewritten"; exit 2; }
(cd $work/repo && git apply $d/patch.diff) || { echo "patch does not apply"; exit 2; }
cd $work/verif
for p in "$@"; do
  out=$(VERIF_SEED=${VERIF_SEED:-1} ./check $p --tier ${TIER:-quick} 2>&1); rc=$?
  nv=$(echo "$out" | sed -n 's/.*violations=\([0-9]*\).*/\1/p' | tail -1)
  rule=$(echo "$out" | sed -n 's/.*rule=\([^ ]*\).*/\1/p' | head -1)
  echo "$id $p rc=$rc violations=${nv:-?} ${rule:--}"
  echo "$out" | grep -E "rule=|BUILD|INCONCLUSIVE|rror" | head -3 | cut -c1-260 | sed 's/^/    /'
done
