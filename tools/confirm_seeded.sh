#!/bin/bash
# confirm_seeded.sh <worktree> : demo fails with the change, passes without; build ok; baseline tests still pass
wt=$1
export GOFLAGS=-mod=mod GOPROXY=off GOSUMDB=off GOTOOLCHAIN=local
cd $wt || exit 2
git checkout -q -- x app 2>/dev/null
git apply patch.diff || { echo "PATCH-DOES-NOT-APPLY"; exit 2; }
go build ./x/... ./app/... ./cmd/... && echo "BUILD-OK" || echo "BUILD-FAIL"
go test -vet=off -count=1 ./demo/ >/tmp/demo-with.$$ 2>&1; echo "demo with change: rc=$?"
go test -vet=off -count=1 -json ./x/... 2>/dev/null | python3 -c "
import json,sys
base=set(json.load(open('/root/.vp/BASELINE.json'))['stable_pass'])
ok=set()
for l in sys.stdin:
    try: e=json.loads(l)
    except: continue
    if e.get('Action')=='pass' and e.get('Test'): ok.add(e['Package']+'::'+e['Test'])
print('baseline passing with change: %d/%d'%(len(base&ok),len(base)))
"
git checkout -q -- x app
go test -vet=off -count=1 ./demo/ >/tmp/demo-without.$$ 2>&1; echo "demo without change: rc=$?"
git apply patch.diff
rm -f /tmp/demo-with.$$ /tmp/demo-without.$$
