#!/bin/bash
# seeded_matrix_copy.sh [-j N] [glob] : every seeded change (default all) against the quick check of its target
# property, on scratch copies (tools/try_seeded_copy.sh), N at a time; rows are replaced in seeded/RESULTS.tsv.
cd /verif
jobs=2; [ "${1:-}" = "-j" ] && { jobs=$2; shift 2; }
glob=${1:-S-C*}
out=seeded/RESULTS.tsv
[ -f $out ] || echo -e "change\tcheck\tseed\trc\tviolations\tfirst_rule" > $out
tmp=$(mktemp -d /tmp/matrix.XXXX)
ls -d seeded/$glob | xargs -P $jobs -I{} sh -c 'id=$(basename {}); p=$(echo $id | cut -c3-5); tools/try_seeded_copy.sh {} $p 2>&1 | grep "^$id " > '$tmp'/$id.txt; cat '$tmp'/$id.txt'
for f in $tmp/*.txt; do
  read id c rc nv rule < <(sed 's/rc=//; s/violations=//' $f)
  [ -z "${id:-}" ] && continue
  grep -v -P "^$id\t$c\t" $out > $out.tmp; mv $out.tmp $out
  echo -e "$id\t$c\t${VERIF_SEED:-1}\t$rc\t$nv\t$rule" >> $out
done
rm -rf $tmp
