#!/bin/bash
# thorough_all.sh [props...] : run the thorough tier of every (or the given) property, one after the other; summary lines to stdout
cd /verif
props=${@:-C01 C02 C03 C04 C05 C06 C07 C08 C09 C10 C11 C12 C13 C14 C15 C16 C17 C18 C19 C20}
for p in $props; do
  out=$(VERIF_SEED=${VERIF_SEED:-1} ./check $p --tier thorough 2>&1); rc=$?
  echo "thorough $p rc=$rc $(echo "$out" | grep -E 'thorough:' | tail -1)"
  echo "$out" | grep -E "VIOLATION|KNOWN-FINDING|rule=|INCONCLUSIVE" | cut -c1-300 | head -6
done
