#!/bin/bash
# run every quick check at the given seeds; print one line per run
cd /verif
for seed in "$@"; do
  for p in C01 C02 C03 C04 C05 C06 C07 C08 C09 C10 C11 C12 C13 C14 C15 C16 C17 C18 C19 C20; do
    out=$(VERIF_SEED=$seed ./check $p --tier quick 2>&1); rc=$?
    echo "seed=$seed $p rc=$rc $(echo "$out" | grep -E "^$p quick" | tail -1)"
    if [ $rc -ne 0 ]; then echo "$out" | tail -6; fi
  done
done
