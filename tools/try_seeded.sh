#!/bin/bash
# try_seeded.sh <patch.diff> <prop> [<prop>...]  : apply a seeded change to /repo, run the quick checks, revert.
set -u
patch=$(realpath $1); shift
cd /repo || exit 2
if ! git diff --quiet; then echo "/repo is dirty"; exit 2; fi
git apply "$patch" || { echo "patch does not apply"; exit 2; }
trap 'git -C /repo checkout -- . ; git -C /repo clean -fdq' EXIT
cd /verif
for p in "$@"; do
  out=$(VERIF_SEED=${VERIF_SEED:-1} ./check $p --tier ${TIER:-quick} 2>&1); rc=$?
  echo "== $p rc=$rc"
  echo "$out" | grep -E "VIOLATION|rule=|quick:|thorough:|INCONCLUSIVE|BUILD" | head -8
done
