#!/bin/bash
# seeded_matrix.sh [round]  : run every seeded change of a round (default: all) against the quick check
# of the property it targets plus the related ones listed below; one line per (change, check) in seeded/RESULTS.tsv.
# Mutates /repo temporarily (git apply / checkout): nothing else may use /repo meanwhile.
cd /verif
declare -A extra=( [C04]="C06" [C05]="C13" [C06]="C04" [C07]="C14" [C08]="C14" [C11]="C13" [C13]="C05" [C14]="C07" [C16]="C04" [C18]="C01" [C03]="C01" [C02]="C19" )
round=${1:-}
out=seeded/RESULTS.tsv
[ -f $out ] || echo -e "change\tcheck\tseed\trc\tviolations\tfirst_rule" > $out
for d in seeded/S-C*${round:+-$round}; do
  id=$(basename $d); p=${id:2:3}
  for c in $p ${extra[$p]:-}; do
    res=$(VERIF_SEED=${VERIF_SEED:-1} tools/try_seeded.sh $d/patch.diff $c 2>&1)
    rc=$(echo "$res" | sed -n 's/^== .* rc=\([0-9]*\)/\1/p' | head -1)
    nv=$(echo "$res" | sed -n 's/.*violations=\([0-9]*\).*/\1/p' | head -1)
    rule=$(echo "$res" | sed -n 's/.*rule=\([^ ]*\).*/\1/p' | head -1)
    grep -v -P "^$id\t$c\t" $out > $out.tmp; mv $out.tmp $out
    echo -e "$id\t$c\t${VERIF_SEED:-1}\t$rc\t${nv:-?}\t${rule:--}" >> $out
    echo "$id $c rc=$rc violations=${nv:-?} ${rule:--}"
  done
done
